#!/bin/bash
# Determinism self-test: every engine/check is run twice in fresh interpreters
# with different PYTHONHASHSEED (and thereby different worker pids / scratch
# roots) and once more at another worker count; the per-case event-log digests
# must be identical.  Exit 2 on any divergence.
cd /verif
N=${1:-24}
out=/dev/shm/vs-selftest.$$
mkdir -p $out
rc=0
for c in C01 C03 C04 C05 C06 C07 C08 C09 C10 C11 C12 C14 C15 C16 C19; do
    PYTHONHASHSEED=0   /venv/bin/python -m verifsim.run $c --cases $N --wall 100000 --no-evidence --dump-digests $out/$c.a.json >/dev/null 2>&1
    PYTHONHASHSEED=977 VERIF_NPROC=3 /venv/bin/python -m verifsim.run $c --cases $N --wall 100000 --no-evidence --dump-digests $out/$c.b.json >/dev/null 2>&1
    if /venv/bin/python - $out/$c.a.json $out/$c.b.json <<'PY'
import json, sys
a = json.load(open(sys.argv[1])); b = json.load(open(sys.argv[2]))
bad = sorted(k for k in set(a) | set(b) if a.get(k) != b.get(k))
print("%d cases, %d divergent %s" % (len(a), len(bad), bad[:10]))
sys.exit(1 if bad or not a else 0)
PY
    then echo "DETERMINISM-OK $c"; else echo "DETERMINISM-FAIL $c"; rc=2; fi
done
rm -rf $out
exit $rc
