#!/venv/bin/python
"""Regenerates MANIFEST.json from the table below (kept as a script so that
the manifest stays consistent with the checks that exist)."""
import json, os, sys
sys.path.insert(0, os.path.dirname(os.path.abspath(__file__)))

PY = "/venv/bin/python -m verifsim.run"
CHECKS = {
 "C01": dict(level="exploration", engine="loopsim", ref="5/C01",
    technique="deterministic simulation: real bob CLI under a virtual-time event loop with seeded step completion order, over seeded edit histories; clean-build oracle by independent tree serialisation",
    text="Seeded edit histories of generated projects, each edit followed by an incremental build under a seeded schedule (-j1..4, develop/release); every package result is compared with a from-scratch build of the same state and repeated builds must execute nothing (observed at the subprocess seam). Sampling, not proof.",
    note="Generated step scripts are deterministic/idempotent by construction; weakly consumed variables are kept out of the transcripts (Bob documents that they do not trigger rebuilds)."),
 "C03": dict(level="exploration", engine="env-perturbation", ref="5/C03",
    technique="deterministic simulation of the id computation's environment: fresh interpreter per evaluation with harness-owned hash seed, recipe-directory listing order (os.walk seam), location, timestamps/creation order; golden ids of the shipped reference project",
    text="All Variant-Ids and Build-Ids (with supplied source hashes) of generated projects must be identical across seeded perturbations of every nondeterminism source of the computation, under sandbox on/off, extra reaches and id-neutral edits; the shipped reference project must reproduce its recorded ids through the real CLI under the same perturbations.",
    note="The id-neutral single edits are differential input testing riding on the harness (said so in DESIGN.md); the claim rests on the nondeterminism perturbation and the golden ids."),
 "C04": dict(level="exploration", engine="history+clock", ref="5/C04",
    technique="deterministic simulation: model-based history simulation with a simulated stat clock; graph computed with all caches warm (plus Bob's pkgck assertion) versus a cold copy with the in-memory memo disabled",
    text="Along seeded edit histories (with reverts, clock jumps, -D overrides) the complete package graph dump per package path and the answers of fixed path queries must be identical between the warm project directory and a cache-free cold computation. Generated projects force the same recipe to be reached with identical environment but different inherited tools / conditional dependencies.",
    note="The cold reference disables the memo by rebinding PackageMatcher.matches; sandbox-enabled graphs and layers are not exercised."),
 "C05": dict(level="fault_enumeration", engine="loopsim", ref="5/C05",
    technique="deterministic simulation with fault injection: script exit/kill at command k, Bob killed at numbered kill points (every state save, fs mutation, seam call, sqlite statement), SIGINT at virtual time t, failing url SCM (upstream unreachable, short write or kill inside the copy); recovery compared with clean build",
    text="One to three aborted invocations (script failure, script+Bob kill, Bob kill at sim point k incl. statements inside sqlite transactions, SIGINT, url SCM failure of a digest-pinned SCM-only checkout) followed by a fault-free build that must succeed, equal the clean build and leave a consistent state; enumeration cases try every kill point of the aborted invocation (thorough) or an evenly spaced sample (quick) from the same restored workspace.",
    note="Kill = os._exit at an operation boundary of the Bob process (scripts run atomically at one virtual instant); power loss is C10's subject."),
 "C06": dict(level="exploration", engine="loopsim", ref="5/C06",
    technique="deterministic simulation: seeded virtual-time schedules of the real builder (-jN, -k, failing steps) with history monitors, plus the real JobServerSemaphore driven by task scripts and a foreign token user on a real pipe",
    text="Layer 1 monitors concurrency bound, dependency order, once-only execution, failure confinement, equality with the sequential build and token conservation over seeded schedules of generated DAGs; layer 2 explores acquire/release interleavings of the token semaphore (internal and external mode) with invariants after every step. Sampling, not proof.",
    note="A script's effect is atomic at the start or end of its virtual interval; for a failing checkout the keep-going completeness rule is not asserted (Build-Id calculation above it fails by design)."),
 "C07": dict(level="exploration", engine="loopsim", ref="5/C07",
    technique="deterministic simulation: several workspaces at different paths sharing one archive, seeded invocation histories with upload/download modes and emulated hosts, byzantine archive faults; oracle = local clean build by content",
    text="Every successful invocation with downloads must yield results equal (by content) to a purely local clean build of its own project state on its own emulated host; identical state+host workspaces must download without building; damaged artifacts may fail a build but never yield different results. Sampling, not proof.",
    note="Live-build-id predictions (git ls-remote, upstream moving right after the prediction, uploader with a modified checkout) are exercised by a dedicated local-git scenario; host identity is a file read by fingerprint scripts."),
 "C12": dict(level="exploration", engine="loopsim+gitworld", ref="5/C12",
    technique="deterministic simulation: turn-taking history of upstream maintainer, recipe author, user and Bob (real git under the virtual-time loop) with upstream outages, plus url SCM location histories; convergence vs fresh checkout and marker-based no-loss oracle",
    text="Seeded and directed histories of upstream commits/tags/force-pushes, SCM spec edits, user edits carrying unique markers and Bob dev/clean invocations (develop and release mode); untouched workspaces must equal a fresh checkout after every successful build and every marker must remain reachable (working tree, attic or any ref) after every invocation.",
    note="git is trusted; reflog-only reachability counts as lost; forced clean is excluded as the statement says."),
 "C14": dict(level="exploration", engine="loopsim", ref="5/C14",
    technique="deterministic simulation: build/upload/download/share histories in two workspaces under the virtual-time loop; every visited workspace's audit trail re-checked by an independent reader (own digest implementation, schema, closure, ids, hashes, SCM records)",
    text="After every successful invocation of seeded histories (fresh, incremental, downloaded, shared) each visited step workspace, every archive artifact and every shared package is checked: schema, complete reference closure, artifact-id = digest of record, variant-id, result-hash (uncached hash and canonical tree), build-id (recomputed), meta, dependency ids in declared order, import SCM digest.",
    note="The record schema object is taken from bob.audit as the documented structure; which workspaces an invocation visited is derived from Bob's recorded provenance (built/downloaded/shared)."),
 "C16": dict(level="exploration", engine="loopsim", ref="5/C16",
    technique="deterministic simulation with fault injection: seeded histories of variant-changing edits, dev/build and clean commands, invocations killed at the k-th statement inside the sqlite refresh of the develop directory map; directory map monitor, workspace-state-at-script-start seam, clean soundness model",
    text="Along seeded histories the (kind, recipe, variant)->directory map must stay injective and stable, a directory handed to another variant must be empty when its script starts (observed at the seam), clean may only delete workspaces whose content belongs to no current package, dry-run changes nothing, and nothing up to date is rebuilt after clean.",
    note="'Content belongs to a package' is tracked by the harness as the variant of the last script executed in that workspace."),
 "C08": dict(level="fault_enumeration", engine="faulty-stream", ref="5/C08",
    technique="fault injection on the byte stream read by the real download+verification path: every truncation length (thorough), bit flips, zeroed blocks, short reads, EIO; hostile member grammar with a sentinel tree",
    text="Round trips of generated trees must be lossless (canonical serialisation and Bob hash); every injected corruption of the stored artifact must be rejected or yield the identical tree; hostile archives must never be accepted unless content matches their audit and must never touch the sentinel tree around the target. Truncation is enumerated over every length per sampled artifact in the thorough tier.",
    note="The builder's post-download verification is replayed by the harness with the same calls; cryptographic attacks on SHA-1/CRC are out of scope."),
 "C09": dict(level="fault_enumeration", engine="procsim", ref="5/C09",
    technique="deterministic simulation: seeded one-fs-op-at-a-time scheduling of real uploader/mirror/reader processes with SIGKILL and errno injection at every sim point",
    text="Seeded exploration of process interleavings on one LocalArchive directory with an invariant evaluated on the real directory after every scheduler step; in enumeration cases every sim point of the chosen actor is killed in turn (exhaustive per sampled world/schedule). Sampling, not proof.",
    note="Trusts the kernel's atomic link/unlink/rename and the stdlib gzip/tarfile used by the independent validator; crash = process crash (no power loss)."),
 "C10": dict(level="fault_enumeration", engine="procsim+crashfs", ref="5/C10",
    technique="deterministic simulation: recorded fs-operation trace cut after every prefix, crash images from a durability model (torn/zeroed/garbled unsynced data); seeded process interleavings for the lock",
    text="For each sampled history of state mutators every prefix of the recorded file-system trace is a crash point (exhaustive per history) and several crash images per point are loaded by a fresh _BobState and compared field by field with the saved snapshots; single-writer is explored with real processes under a seeded one-operation-at-a-time schedule.",
    note="The durability model (ordered atomic metadata, arbitrary unsynced data) is a model, not a real power cut; snapshots are captured at pickle.dump inside the real code."),
 "C15": dict(level="exploration", engine="procsim", ref="5/C15",
    technique="deterministic simulation: seeded one-fs-op-at-a-time scheduling of real project/gc processes on one shared store with real flocks; invariants I1-I7 checked between steps",
    text="Seeded exploration of process interleavings of the real builder share code path (_useSharedPackage/_installSharedPackage) and LocalShare.gc on one store; completeness, install-once, no collection of linked packages, accounting, LRU/quota minimality, no spurious failure, no deadlock are checked after every step / at quiescence. One genuine defect is recorded in known_findings.json.",
    note="Step objects are stubs, the build itself is a harness write; actor crashes are not part of the asserted configuration; a link created after a gc took the store lock is not counted as use (probe only)."),
 "C19": dict(level="exploration", engine="history+clock", ref="5/C19",
    technique="deterministic simulation: model-based history simulation of one archive (-l) or two configured archives sharing one scan index (-a/-b) and the index (artifacts added/removed/replaced behind Bob's back) under a simulated stat clock; executable retention model as oracle",
    text="Seeded histories of archive modifications interleaved with real `bob archive scan/find/clean` invocations; find/clean/dry-run results are compared with an independent retention model evaluated over the artifacts actually present, and clean is repeated on a copy with a fresh index. Sampling, not proof.",
    note="Ties at the LIMIT boundary accept any choice; expressions with ordering comparisons against missing fields are skipped; -n only right after a scan."),
 "C11": dict(level="exploration", engine="history+clock", ref="5/C11",
    technique="deterministic simulation: model-based history simulation with a simulated stat clock; cached vs uncached vs canonical tree model",
    text="Seeded histories of tree modifications with the persistent hash cache living across them; cached == uncached hash and hash equality <=> canonical-serialisation equality are checked at every hash point. Sampling, not proof.",
    note="Assumes every modification changes stat data (the harness enforces a fresh mtime); independent canonical serialisation is the reference."),
}
NOT_APPLICABLE = {
 "C02": "pure function of two recipe sets (no schedule, clock, fault, crash or persistent state); partial by-product coverage via C01/C07/C03, see DESIGN.md section 7",
 "C13": "the environment a script observes is a pure function of recipes, host environment and flags; nothing to schedule or break (DESIGN.md section 7)",
 "C17": "string substitution / IfExpression evaluation is a pure function of its input (DESIGN.md section 7)",
 "C18": "path queries are a pure function of graph and query; the on-disk tree cache is covered by C04 (DESIGN.md section 7)",
 "C20": "Jenkins job graph is a pure function of recipes and options (DESIGN.md section 7)",
}
PENDING = "check not built yet in this round (planned, see DESIGN.md section 5); not claimed until it exists"
ALL = ["C%02d" % i for i in range(1, 21)]

def main():
    checks = []
    for pid in sorted(CHECKS):
        c = CHECKS[pid]
        checks.append({
            "property_id": pid,
            "quick_cmd": "%s %s --tier quick" % (PY, pid),
            "thorough_cmd": "%s %s --tier thorough" % (PY, pid),
            "evidence_file": "/verif/evidence/%s.json" % pid,
            "replay_cmd_template": "%s %s --replay {path}" % (PY, pid),
            "engine": c["engine"],
            "level_claimed": {"category": c["level"], "text": c["text"], "design_ref": "DESIGN.md section " + c["ref"]},
            "level_note": c["note"],
            "technique": c["technique"],
        })
    na = []
    for pid in ALL:
        if pid in CHECKS:
            continue
        na.append({"property_id": pid, "reason": NOT_APPLICABLE.get(pid, PENDING)})
    hooks_commits = []
    m = {
        "version": 1,
        "setup_cmd": "/venv/bin/python -c \"import hypothesis, yaml, schema, pyparsing\" && /venv/bin/python -m compileall -q /verif/verifsim",
        "hooks": {"guard": "BOB_VERIF_SIM", "enable": "no source hooks: all seams are rebound from outside (module globals) inside forked children; the guard variable is unused",
                  "baseline_off_cmd": "cd /repo && /venv/bin/python -m pytest -ra -q -p no:cacheprovider --timeout=900 --continue-on-collection-errors",
                  "source_commits": hooks_commits, "add_only": True},
        "engines": [
            {"name": "procsim", "path": "/verif/verifsim/procsim.py", "serves_properties": ["C09", "C10", "C15"],
             "kind_free_text": "forked real processes, module-global fs proxies, parent grants one fs operation at a time from a seeded decision list; SIGKILL/errno faults"},
            {"name": "loopsim", "path": "/verif/verifsim/loopsim.py", "serves_properties": ["C01", "C05", "C06", "C07", "C12", "C14", "C16"],
             "kind_free_text": "real bob CLI in a forked child under a virtual-time asyncio loop; subprocess/executor completion order, durations, SIGINT, kill points and script faults decided by a seeded scheduler"},
            {"name": "history+clock", "path": "/verif/verifsim/treegen.py", "serves_properties": ["C04", "C11", "C19"],
             "kind_free_text": "persistent on-disk caches living across seeded edit histories under a simulated stat clock, compared against a reference model after every step"},
        ],
        "checks": checks,
        "not_applicable": na,
        "notes": "All checks import Bob from /repo/pym (VERIF_REPO overrides) at run time; nothing is built ahead. Exit 2 = harness error (no verdict). known_findings.json lists recorded/fixed defects.",
    }
    with open(os.path.join(os.path.dirname(os.path.abspath(__file__)), "MANIFEST.json"), "w") as f:
        json.dump(m, f, indent=1)
        f.write("\n")

if __name__ == "__main__":
    main()
