#!/venv/bin/python
"""Run every seeded change under /verif/seeded against the quick tier of its check (seed 0, and seed 1
if seed 0 misses) and write seeded/RECHECK.md.  Uses tools/try_seeded.py (scratch worktrees, VERIF_REPO)."""
import json, os, subprocess, sys, time
base = "/verif/seeded"
rows = []
only = sys.argv[1:]
for d in sorted(os.listdir(base)):
    p = os.path.join(base, d)
    if not os.path.isdir(p) or not os.path.exists(os.path.join(p, "patch.diff")):
        continue
    if only and not any(d.startswith(o) for o in only):
        continue
    meta = json.load(open(os.path.join(p, "meta.json")))
    props = [meta["property"]] + [c for c in meta.get("caught_by", []) if c != meta["property"]]
    res = None
    for prop, seeds in [(pr, sd) for pr in props for sd in ("0", "1")]:
        t0 = time.time()
        r = subprocess.run(["/venv/bin/python", "/verif/tools/try_seeded.py", p, prop, "--seeds", seeds],
                           stdout=subprocess.PIPE, stderr=subprocess.STDOUT, text=True)
        try:
            j = json.loads(r.stdout[r.stdout.index("{"):])
        except Exception:
            res = (d, prop, "ERROR", r.stdout[-200:].replace("\n", " "), seeds); break
        c = j["check"][seeds]
        res = (d, prop, "caught" if j.get("caught") else "MISSED", "%s %s" % (sorted(set(c["violation_kinds"])), (c["summary"] or [""])[0].replace("SUMMARY ", "")), seeds)
        if j.get("caught"):
            break
    rows.append(res)
    print(res, flush=True)
with open(os.path.join(base, os.environ.get("RECHECK_OUT", "RECHECK.md")), "w") as f:
    f.write("# Re-check of all seeded changes against the final quick tier\n\n(produced by tools/recheck_seeded.py; seed 0, then seed 1 if missed)\n\n| change | check | result | seed | detail |\n|---|---|---|---|---|\n")
    for d, prop, st, detail, seed in rows:
        f.write("| %s | %s | %s | %s | %s |\n" % (d, prop, st, seed, detail))
