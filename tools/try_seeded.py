#!/venv/bin/python
"""Confirm a seeded breaking change and run checks against it.

  tools/try_seeded.py <dir with patch.diff + demo.*> <check id> [--tests] [--cases N] [--wall S] [--seeds 0,1]

Uses a scratch git worktree of /repo under /dev/shm (never /repo itself: a
background sweep may be using it), applies the patch there, runs the
demonstration without and with the patch, optionally the pinned test suite, and
the check with VERIF_REPO pointing at the patched tree.  Removes the worktree.
Prints a JSON summary (to be pasted into meta.json).
"""
import json, os, re, subprocess, sys, shutil, time

def sh(cmd, **kw):
    p = subprocess.run(cmd, stdout=subprocess.PIPE, stderr=subprocess.STDOUT, text=True, **kw)
    return p.returncode, p.stdout

def main():
    d = os.path.abspath(sys.argv[1]); pid = sys.argv[2]
    args = sys.argv[3:]
    cases = args[args.index("--cases") + 1] if "--cases" in args else None
    wall = args[args.index("--wall") + 1] if "--wall" in args else None
    seeds = (args[args.index("--seeds") + 1] if "--seeds" in args else "0").split(",")
    wt = "/dev/shm/seedwt-%s-%d" % (pid, os.getpid())
    out = {"property": pid, "dir": d}
    sh(["git", "-C", "/repo", "worktree", "add", "--detach", wt, "HEAD"])
    try:
        demo = [f for f in os.listdir(d) if f.startswith("demo.")]
        demo = os.path.join(d, demo[0]) if demo else None
        def run_demo():
            if demo is None:
                return None
            cmd = (["bash", demo, wt] if demo.endswith(".sh") else ["/venv/bin/python", demo, wt])
            rc, o = sh(cmd, timeout=900)
            return rc
        out["demo_without_patch"] = run_demo()
        rc, o = sh(["git", "-C", wt, "apply", os.path.join(d, "patch.diff")])
        out["patch_applies"] = (rc == 0)
        if rc != 0:
            out["apply_output"] = o[-400:]
            print(json.dumps(out, indent=1)); return 1
        out["demo_with_patch"] = run_demo()
        if "--tests" in args:
            rc, o = sh(["/venv/bin/python", "-m", "pytest", "-q", "-p", "no:cacheprovider", "--timeout=900",
                        "--continue-on-collection-errors"], cwd=wt, timeout=3000)
            m = re.search(r"(\d+) passed", o)
            out["tests_passed_with_patch"] = int(m.group(1)) if m else None
            out["tests_tail"] = o.strip().splitlines()[-1][:200]
        res = {}
        for s in seeds:
            cmd = ["/venv/bin/python", "-m", "verifsim.run", pid, "--no-evidence"]
            if cases: cmd += ["--cases", cases]
            if wall: cmd += ["--wall", wall]
            t0 = time.time()
            rc, o = sh(cmd, cwd="/verif", env=dict(os.environ, VERIF_REPO=wt, VERIF_SEED=s), timeout=7200)
            kinds = re.findall(r"violation kind=(\S+)", o)
            res[s] = {"exit": rc, "violation_kinds": kinds, "summary": [l for l in o.splitlines() if l.startswith("SUMMARY")][-1:],
                      "wall_s": round(time.time() - t0)}
        out["check"] = res
        out["caught"] = any(v["exit"] == 1 for v in res.values())
    finally:
        sh(["git", "-C", "/repo", "worktree", "remove", "--force", wt])
        shutil.rmtree(wt, ignore_errors=True)
    print(json.dumps(out, indent=1))
    return 0

if __name__ == "__main__":
    sys.exit(main())
