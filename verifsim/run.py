"""Command line driver: python -m verifsim.run <Cxx> [--tier quick|thorough]
[--replay file] [--seed N] [--cases N] [--selftest]

Exit codes: 0 property held on everything explored (KNOWN-FINDING lines are
informational); 1 + 'VIOLATION property=<id> replay=<path>'; 2 harness error.
"""

import argparse
import copy
import importlib
import json
import os
import re
import subprocess
import sys
import time

from . import common
from .common import Counter, parallel_map, run_forked, rng_for, jdump

CHECKS = {
    "C01": "c01", "C03": "c03", "C04": "c04", "C05": "c05", "C06": "c06",
    "C07": "c07", "C08": "c08", "C09": "c09", "C10": "c10", "C11": "c11",
    "C12": "c12", "C14": "c14", "C15": "c15", "C16": "c16", "C19": "c19",
}

def load_check(pid):
    return importlib.import_module("verifsim.checks." + CHECKS[pid])

def load_known(pid):
    path = os.path.join(common.VERIF_DIR, "known_findings.json")
    try:
        with open(path) as f:
            data = json.load(f)
    except FileNotFoundError:
        return []
    return [k for k in data.get("findings", [])
            if k.get("property") == pid and k.get("status") == "known"]

def match_known(known, viol):
    text = "%s: %s" % (viol["kind"], viol.get("detail", ""))
    for k in known:
        if re.search(k["signature"], text, re.S):
            return k
    return None

def exec_batch(modname, batch):
    """Several cheap cases in one forked child (fork costs ~6 ms here)."""
    return [(idx, exec_case(modname, c)) for idx, c in batch]

def exec_case(modname, case):
    mod = importlib.import_module(modname)
    t0 = time.monotonic()
    res = mod.run_case(case)
    res.setdefault("violation", None)
    res.setdefault("stats", {})
    res.setdefault("nontrivial", True)
    res.setdefault("key", res.get("digest"))
    res["wall"] = time.monotonic() - t0
    return res

# ---------------------------------------------------------------------------
# shrinking (ddmin over the list-valued parts of a case)

def _get(case, path):
    cur = case
    for p in path.split("."):
        cur = cur[p]
    return cur

def _set(case, path, val):
    parts = path.split(".")
    cur = case
    for p in parts[:-1]:
        cur = cur[p]
    cur[parts[-1]] = val

def shrink_case(mod, case, kind, timeout, budget_s=150.0, max_runs=250):
    t_end = time.monotonic() + budget_s
    runs = [0]

    def fails(c):
        if runs[0] >= max_runs or time.monotonic() > t_end:
            return False
        runs[0] += 1
        r = run_forked(exec_case, mod.__name__, c, timeout=timeout)
        return (r.status == "ok" and r.value["violation"] is not None
                and r.value["violation"]["kind"] == kind)

    best = copy.deepcopy(case)
    # check-specific structural simplifications first
    simp = getattr(mod, "simplify", None)
    progress = True
    rounds = 0
    while progress and rounds < 4:
        progress = False
        rounds += 1
        if simp is not None:
            again = True
            while again:
                again = False
                for cand in simp(copy.deepcopy(best)):
                    if fails(cand):
                        best = cand
                        again = progress = True
                        break
        for path in getattr(mod, "SHRINK", []):
            try:
                lst = list(_get(best, path))
            except (KeyError, TypeError):
                continue
            n = 2
            while len(lst) >= 1:
                chunk = max(1, len(lst) // n)
                reduced = False
                i = 0
                while i < len(lst):
                    cand_l = lst[:i] + lst[i + chunk:]
                    cand = copy.deepcopy(best)
                    _set(cand, path, cand_l)
                    fix = getattr(mod, "fixup", None)
                    if fix is not None:
                        cand = fix(cand)
                    if cand is not None and fails(cand):
                        best = cand
                        lst = list(_get(best, path))
                        reduced = progress = True
                        n = max(n - 1, 2)
                    else:
                        i += chunk
                if not reduced:
                    if chunk == 1:
                        break
                    n = min(len(lst), n * 2)
    return best, runs[0]

# ---------------------------------------------------------------------------

def write_replay(pid, seed, index, case, viol, digest):
    d = os.path.join(common.VERIF_DIR, "replays")
    os.makedirs(d, exist_ok=True)
    path = os.path.join(d, "%s-%s-%s.json" % (pid, seed, str(index).replace("-", "d")))
    with open(path, "w") as f:
        f.write(jdump({"property": pid, "seed": seed, "index": index, "case": case,
                       "expect": {"kind": viol["kind"], "detail": viol.get("detail", ""),
                                  "digest": digest}}, indent=1))
    return path

def do_replay(pid, path, mod, timeout):
    with open(path) as f:
        rec = json.load(f)
    r = run_forked(exec_case, mod.__name__, rec["case"], timeout=timeout)
    if r.status != "ok":
        print("HARNESS-ERROR replay %s: %s %s" % (path, r.status, r.value))
        return 2
    v = r.value["violation"]
    if v is None:
        print("REPLAY-NOREPRO property=%s file=%s (no violation on this tree)" % (pid, path))
        return 0
    same = (v["kind"] == rec["expect"]["kind"])
    same_digest = (r.value.get("digest") == rec["expect"].get("digest"))
    print("REPLAY-%s kind=%s digest_equal=%s detail=%s" % ("OK" if same else "DIFFERENT",
          v["kind"], same_digest, v.get("detail", "")[:400]))
    known = match_known(load_known(pid), v)
    if known:
        print("KNOWN-FINDING: property=%s %s" % (pid, known["what"]))
        return 0
    print("VIOLATION property=%s replay=%s" % (pid, path))
    return 1

def write_evidence(pid, mod, tier, seed, t0, results, viol_count, extra):
    stats = Counter()
    keys = set()
    nontriv_keys = set()
    samples = []
    sim_time = 0.0
    for (idx, case, res) in results:
        stats.merge(res.get("stats"))
        sim_time += res.get("sim_time", 0.0)
        keys.add(res.get("key"))
        if res.get("nontrivial"):
            nontriv_keys.add(res.get("key"))
        if len(samples) < 3 and res.get("nontrivial"):
            s = res.get("sample")
            if s is None:
                s = case
            samples.append({"index": idx, "case": s})
    if not samples and results:
        samples.append({"index": results[0][0], "case": results[0][2].get("sample", results[0][1])})
    wall = time.monotonic() - t0
    n = len(results)
    cov = {
        "evaluations": n,
        "distinct_nontrivial": len(nontriv_keys),
        "rule": getattr(mod, "RULE", ""),
        "samples": json.loads(jdump(samples)),
        "runs_per_hour": int(n / wall * 3600) if wall > 0 else 0,
        "simulated_time_or_steps": round(sim_time, 3),
        "counters": dict(sorted(stats.items())),
        "components": getattr(mod, "COMPONENTS", {}),
        "exhaustive": False,
    }
    cov.update(extra)
    ev = {
        "property_id": pid,
        "tier": tier,
        "seed": seed,
        "level": mod.LEVEL,
        "coverage": cov,
        "assumptions": getattr(mod, "ASSUMPTIONS", []),
        "wall_s": round(wall, 2),
        "violations": viol_count,
    }
    d = os.path.join(common.VERIF_DIR, "evidence")
    os.makedirs(d, exist_ok=True)
    tmp = os.path.join(d, ".%s.json.tmp" % pid)
    with open(tmp, "w") as f:
        json.dump(ev, f, indent=1, sort_keys=True)
    os.replace(tmp, os.path.join(d, "%s.json" % pid))
    # a copy per tier, so that a later quick run does not erase what a thorough run covered
    dt = os.path.join(d, tier)
    os.makedirs(dt, exist_ok=True)
    with open(os.path.join(dt, ".%s.json.tmp" % pid), "w") as f:
        json.dump(ev, f, indent=1, sort_keys=True)
    os.replace(os.path.join(dt, ".%s.json.tmp" % pid), os.path.join(dt, "%s.json" % pid))

def main(argv=None):
    ap = argparse.ArgumentParser()
    ap.add_argument("check")
    ap.add_argument("--tier", default=os.environ.get("VERIF_TIER", "quick"))
    ap.add_argument("--replay")
    ap.add_argument("--seed", type=int, default=None)
    ap.add_argument("--cases", type=int, default=None)
    ap.add_argument("--wall", type=float, default=None)
    ap.add_argument("--index", type=int, default=None, help="run only this generated case, verbosely")
    ap.add_argument("--no-evidence", action="store_true")
    ap.add_argument("--dump-digests", help="write {case index: digest} as JSON (determinism self-test across interpreters)")
    ap.add_argument("--selftest", action="store_true",
                    help="determinism self-test: every case twice, digests must agree")
    args = ap.parse_args(argv)
    if args.tier not in ("quick", "thorough"):
        args.tier = "quick"
    pid = args.check.upper()
    if pid not in CHECKS:
        print("HARNESS-ERROR unknown check", pid)
        return 2
    seed = args.seed
    if seed is None:
        try:
            seed = int(os.environ.get("VERIF_SEED", "0"))
        except ValueError:
            seed = common.seed_int(os.environ.get("VERIF_SEED")) % (1 << 31)

    # re-exec with a fixed hash seed so that set/dict iteration of str keys in
    # harness and SUT is the same in every process of this run
    if os.environ.get("PYTHONHASHSEED") is None:
        env = dict(os.environ, PYTHONHASHSEED="0")
        os.execve(sys.executable, [sys.executable, "-m", "verifsim.run"] + (argv or sys.argv[1:]), env)

    print("VERIF property=%s tier=%s seed=%d repo=%s" % (pid, args.tier, seed, common.REPO), flush=True)
    common.import_bob()
    common.scratch_top()
    mod = load_check(pid)
    plan = mod.plan(args.tier)
    timeout = plan.get("timeout", 120.0)

    if args.replay:
        return do_replay(pid, args.replay, mod, timeout)

    ncases = args.cases if args.cases is not None else plan["cases"]
    wall_budget = args.wall if args.wall is not None else plan.get("wall_budget", 1e9)
    t0 = time.monotonic()

    def gen(i):
        return mod.gen_case(rng_for(pid, seed, i), args.tier, i)

    if args.index is not None:
        case = gen(args.index) if args.index >= 0 else mod.directed_cases(args.tier)[-args.index - 1]
        r = run_forked(exec_case, mod.__name__, case, timeout=timeout, quiet=False)
        print(jdump({"case": case, "status": r.status, "result": r.value}, indent=1)[:20000])
        return 0

    directed = list(getattr(mod, "directed_cases", lambda tier: [])(args.tier))
    # minimised histories of defects that were found and repaired: replayed on
    # every run so that a regression is reported again
    rdir = os.path.join(common.VERIF_DIR, "regressions")
    if os.path.isdir(rdir):
        for fn in sorted(os.listdir(rdir)):
            if fn.startswith(pid + "-") and fn.endswith(".json"):
                with open(os.path.join(rdir, fn)) as f:
                    directed.append(json.load(f)["case"])
    cases = {}

    batch_n = max(1, int(plan.get("batch", 1)))

    directed_left = [len(directed)]
    def items():
        for k, c in enumerate(directed):
            cases[-(k + 1)] = c
            directed_left[0] -= 1
            yield (-(k + 1), exec_batch, (mod.__name__, [(-(k + 1), c)]))
        for i0 in range(0, ncases, batch_n):
            b = []
            for i in range(i0, min(ncases, i0 + batch_n)):
                c = gen(i)
                cases[i] = c
                b.append((i, c))
            yield (i0, exec_batch, (mod.__name__, b))

    results = []
    violations = []
    harness_errors = []
    known = load_known(pid)
    new_count = [0]
    # directed cases and regressions always run; the wall budget bounds the generated ones
    stop = lambda: ((time.monotonic() - t0) > wall_budget and directed_left[0] <= 0) or new_count[0] >= 5 \
        or len(harness_errors) >= 12
    nproc = plan.get("nproc")
    for idx0, r in parallel_map(items(), nproc=nproc, timeout=timeout * (1 + batch_n / 4.0), stop=stop):
        if r.status != "ok":
            harness_errors.append((idx0, r.status, r.value))
            continue
        for idx, val in r.value:
            results.append((idx, cases[idx], val))
            if val["violation"] is not None:
                violations.append((idx, cases[idx], val))
                if match_known(known, val["violation"]) is None:
                    new_count[0] += 1
    results.sort(key=lambda t: t[0])
    violations.sort(key=lambda t: t[0])

    # determinism re-check of a sample (same case, fresh forked child)
    recheck = [t for t in results if t[0] >= 0][: (ncases if args.selftest else plan.get("recheck", 3))]
    mismatches = []
    for idx, r in parallel_map(((t[0], exec_case, (mod.__name__, t[1])) for t in recheck), nproc=nproc, timeout=timeout):
        first = next(t for t in recheck if t[0] == idx)[2]
        if r.status != "ok" or r.value.get("digest") != first.get("digest"):
            mismatches.append(idx)
    if mismatches:
        print("HARNESS-WARNING nondeterministic cases (digest differs on re-run): %s" % sorted(mismatches))

    rc = 0
    reported_kinds = set()
    known_hit = {}
    new_viol = 0
    for idx, case, res in violations:
        v = res["violation"]
        k = match_known(known, v)
        if k is not None:
            known_hit.setdefault(k["what"], idx)
            continue
        new_viol += 1
        if v["kind"] in reported_kinds or len(reported_kinds) >= 3:
            continue
        reported_kinds.add(v["kind"])
        small, nruns = shrink_case(mod, case, v["kind"], timeout,
                                   budget_s=plan.get("shrink_budget", 120.0))
        rr = run_forked(exec_case, mod.__name__, small, timeout=timeout)
        if rr.status == "ok" and rr.value["violation"] is not None:
            vv, dg = rr.value["violation"], rr.value.get("digest")
        else:
            small, vv, dg = case, v, res.get("digest")
        path = write_replay(pid, seed, idx, small, vv, dg)
        # replay in a fresh interpreter
        p = subprocess.run([sys.executable, "-m", "verifsim.run", pid, "--replay", path],
                           cwd=common.VERIF_DIR, capture_output=True, text=True,
                           env=dict(os.environ, VERIF_SCRATCH_TOP=""))
        verified = "REPLAY-OK" in p.stdout
        print("violation kind=%s index=%s shrink_runs=%d replay_verified=%s detail=%s" % (
            vv["kind"], idx, nruns, verified, vv.get("detail", "")[:600]))
        print("VIOLATION property=%s replay=%s" % (pid, path))
        rc = 1
    for what, idx in sorted(known_hit.items()):
        print("KNOWN-FINDING: property=%s %s (e.g. case index %s)" % (pid, what, idx))

    extra = {
        "determinism_rechecks": len(recheck),
        "determinism_mismatches": len(mismatches),
        "harness_errors": len(harness_errors),
        "directed_cases": len(directed),
        "known_findings_hit": sorted(known_hit),
        "planned_cases": ncases,
    }
    if args.dump_digests:
        with open(args.dump_digests, "w") as f:
            json.dump({str(t[0]): t[2].get("digest") for t in results}, f, sort_keys=True)
    if not args.no_evidence:
        write_evidence(pid, mod, args.tier, seed, t0, results, new_viol, extra)
    wall = time.monotonic() - t0
    print("SUMMARY property=%s cases=%d/%d violations=%d known=%d harness_errors=%d wall=%.1fs" % (
        pid, len(results), ncases + len(directed), new_viol, len(known_hit), len(harness_errors), wall))
    if harness_errors:
        for idx, st, val in harness_errors[:3]:
            print("HARNESS-%s case=%s status=%s %s" % ("ERROR" if rc == 0 else "WARNING", idx, st, (val or "")[-1500:]))
        # isolated harness failures (a case that timed out under load, an unforeseen
        # shape of a generated world) are reported and counted in the evidence but do not
        # void the verdict of the other cases; systematic ones do
        if rc == 0 and len(harness_errors) > max(2, (len(results) + len(harness_errors)) // 10):
            return 2
    if args.selftest and mismatches:
        return 2
    return rc

if __name__ == "__main__":
    sys.exit(main())
