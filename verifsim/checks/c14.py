"""C14 Audit trails are complete and truthful.

History invariant on engine-A runs.  Two project directories (A and B, same
recipes, different absolute paths) share a file archive and a shared-package
store.  Histories: fresh build with upload in A, edits + incremental builds,
B building with downloads (partially downloaded), shared packages installed and
re-used.  After every successful invocation every step workspace of the closure
is examined with code that is independent of Bob's audit module (stdlib
gzip/json, own digest implementation):

  * audit.json.gz exists, validates against the documented schema;
  * the references contain the complete transitive closure of args/tools;
  * artifact-id == digest of the record without the id, for the artifact and
    every reference;
  * variant-id == the step's; result-hash == uncached hash of the storage path
    (and equal trees <=> equal hashes via the canonical serialisation);
    build-id == result-hash for checkouts, == the Build-Id recomputed from the
    source hashes for relocatable, non-fingerprinted build/package steps;
  * meta: recipe, package, step, language, bob version, -M defines; metaEnv;
  * for steps executed in the last invocation: args/tools ids == artifact-ids of
    the dependencies' current trails in declared order;
  * import SCM record == actual digest of the checkout directory;
  * every artifact in the archive is stored under the build-id its embedded
    trail records; shared packages carry the trail of their build-id.
"""

import gzip
import hashlib
import io
import json
import os
import struct
import tarfile

from .. import common, projgen, buildsim, bobq, treecmp

PROPERTY = "C14"
LEVEL = "exploration"
RULE = ("case = generated project (shared packages, import sources, tools) + history of invocations in two "
        "workspaces sharing an archive and a shared store (upload builds, edits, incremental builds, download "
        "builds, user modifications of source workspaces) with -M defines; non-trivial = trails of at least three kinds of provenance (built / downloaded / "
        "shared / incremental-kept) were checked; distinct = digest of the checked (package, step, provenance) list")
COMPONENTS = {"real": ["bob.audit (Audit/Artifact), builder._generateAudit", "archive up/download (file backend)", "share install/use",
                       "scm.imp audit"],
              "stub": ["event loop (SimLoop), process pool inline"],
              "not_exercised": ["git/svn SCM records (git: C12)", "sandbox trails", "recipes-repository audit (project dir is no git repo)"]}
ASSUMPTIONS = ["the documented record structure is bob.audit.Audit.SCHEMA"]
SHRINK = ["ops"]

def plan(tier):
    if tier == "thorough":
        return {"cases": 2000, "timeout": 600, "wall_budget": 1700, "recheck": 5, "nproc": 6}
    return {"cases": 60, "timeout": 400, "wall_budget": 100, "recheck": 2, "nproc": 6}

def gen_case(rng, tier, index):
    feats = {"shared", "checkoutscript"} | set(rng.sample(["import", "vars", "tools", "provideVars", "classes", "diamond", "provideDeps", "depenv", "twins"], rng.randint(1, 5)))
    model = projgen.gen_valid_project(rng, nmin=3, nmax=6, features=feats)
    url = index % 3 == 1 and projgen.add_url_sources(rng, model, p=0.5) > 0
    ops = [{"ws": "A", "upload": True, "download": "no", "jobs": rng.choice([1, 2]), "seed": rng.getrandbits(32)}]
    hist = [model]
    cur = model
    for _ in range(rng.choice([1, 2, 3, 4])):
        r = rng.random()
        if r < 0.4:
            e = projgen.gen_edit(rng, cur, hist)
            if e is not None:
                cur = projgen.apply_edit(cur, e, hist)
                hist.append(cur)
                ops.append({"edit": e})
        w = rng.choice(["A", "B", "B"])
        if rng.random() < 0.3:
            # the user touches a source workspace: Bob re-runs the (deterministic) checkout
            # script because the workspace changed and must record what is there afterwards
            ops.append({"tamper": rng.choice(["overwrite-generated", "add-file", "both", "remove-added", "remove-added"] +
                                             (["overwrite-fetched"] * 5 if url else [])),
                        "ws": w, "pick": rng.randrange(100)})
        ops.append({"ws": w, "upload": rng.random() < 0.5,
                    "download": rng.choice(["no", "yes", "deps", "forced-fallback"]),
                    "jobs": rng.choice([1, 2, 4]), "seed": rng.getrandbits(32),
                    "shared": rng.random() < 0.7, "no_audit": rng.random() < 0.12})
    return {"model": model, "ops": ops, "meta": {"VERIFKEY": "v%d" % rng.randrange(100)}}

def directed_cases(tier):
    """A shared package whose Build-Id changes at unchanged Variant-Id (user adds a file to its source
    workspace) and then returns to a Build-Id that is already installed in the shared location."""
    import random
    rng = random.Random(1414)
    out = []
    for k in range(2):
        lib = projgen._leaf(rng); lib["src"] = "script"; lib["shared"] = True
        mid = projgen._leaf(rng); mid["depends"] = [{"name": "lib", "use": ["result", "deps"]}]
        root = projgen._leaf(rng)
        root["depends"] = [{"name": "mid", "use": ["result", "deps"]}] + ([{"name": "lib", "use": ["result", "deps"]}] if k else [])
        model = {"recipes": {"root": root, "mid": mid, "lib": lib}, "classes": {}, "default_env": {}, "sources": {},
                 "order": ["root", "mid", "lib"], "features": ["directed-shared-buildid-returns"]}
        b = lambda w: {"ws": w, "upload": False, "download": "no", "jobs": 1, "seed": rng.getrandbits(32), "shared": True}
        ops = [b("A"), {"tamper": "add-file", "ws": "A", "pick": 0}, b("A"), {"tamper": "remove-added", "ws": "A", "pick": 0}, b("A")]
        if k:
            ops += [b("B"), {"tamper": "add-file", "ws": "B", "pick": 0}, b("B")]
        out.append({"model": model, "ops": ops, "meta": {"VERIFKEY": "d%d" % k}, "directed": "shared package returns to an installed Build-Id"})
    # the content of a tool changes but the step that uses it produces the very same result again:
    # its trail must name the new tool all the same
    gen = projgen._leaf(rng); gen["src"] = "import"; gen["provideTools"] = {"tool_gen": {"path": "sub", "libs": []}}
    user = projgen._leaf(rng)
    user["depends"] = [{"name": "gen", "use": ["tools"]}]
    user["buildTools"] = ["tool_gen"]
    root = projgen._leaf(rng); root["depends"] = [{"name": "user", "use": ["result", "deps"]}]
    model = {"recipes": {"root": root, "user": user, "gen": gen}, "classes": {}, "default_env": {},
             "sources": {"src/gen/f0.txt": "gen-file0\n"}, "order": ["root", "user", "gen"], "features": ["directed-identical-rerun"]}
    b = lambda: {"ws": "A", "upload": False, "download": "no", "jobs": 1, "seed": rng.getrandbits(32), "shared": False}
    out.append({"model": model, "ops": [b(), {"edit": {"kind": "src_modify", "path": "src/gen/f0.txt", "content": "mod-1\n", "same_size": False}}, b(),
                                        {"edit": {"kind": "src_add", "path": "src/gen/n1.txt", "content": "new\n"}}, b()],
                "meta": {"VERIFKEY": "t0"}, "directed": "tool content changes, user re-runs with an identical result"})
    # an invocation without audit trail in the middle of a history
    for k in range(2):
        model = projgen.gen_valid_project(rng, nmin=3, nmax=4, features={"import", "diamond", "vars"})
        e = projgen.gen_edit(rng, model, [model], ["src_modify", "salt"])
        e2 = projgen.gen_edit(rng, model, [model], ["salt"])
        if e is None or e2 is None:
            continue
        b = lambda na: {"ws": "A", "upload": False, "download": "no", "jobs": 1, "seed": rng.getrandbits(32), "shared": False, "no_audit": na}
        out.append({"model": model, "ops": [b(False), {"edit": e}, b(True), {"edit": e2}, b(False)], "meta": {"VERIFKEY": "n%d" % k},
                    "directed": "--no-audit in the middle of a history"})
    # a file fetched by a digest-pinned url SCM is edited by the user: the checkout does not run again,
    # the regenerated trail has to record what is in the workspace
    for k in range(2):
        lib = projgen._leaf(rng); lib["src"] = "url"
        lib["url"] = {"rev": 0, "content": "upstream-lib-%d\n" % k, "dir": ["dl", "."][k], "fileName": [None, "data.bin"][k]}
        root = projgen._leaf(rng); root["depends"] = [{"name": "lib", "use": ["result", "deps"]}]
        model = {"recipes": {"root": root, "lib": lib}, "classes": {}, "default_env": {}, "sources": {},
                 "order": ["root", "lib"], "features": ["directed-url-fetched-file-edited", "urlscm"]}
        b = lambda: {"ws": "A", "upload": False, "download": "no", "jobs": 1, "seed": rng.getrandbits(32), "shared": False}
        out.append({"model": model, "ops": [b(), {"tamper": "overwrite-fetched", "ws": "A", "pick": 0}, b(), b()],
                    "meta": {"VERIFKEY": "u%d" % k}, "directed": "file fetched by a url SCM edited by the user"})
    return out

# -- independent re-implementation of the artifact-id digest (documented in audit-trail.rst / audit.py)

def _dg(d, h):
    if isinstance(d, str):
        b = d.encode("utf8")
        h.update(struct.pack("<BI", 2, len(d)))
        h.update(b)
    elif isinstance(d, dict):
        h.update(struct.pack("<BI", 1, len(d)))
        for k in sorted(d):
            _dg(k, h)
            _dg(d[k], h)
    elif isinstance(d, list):
        h.update(struct.pack("<BI", 3, len(d)))
        for i in d:
            _dg(i, h)
    elif isinstance(d, bool):
        h.update(struct.pack("<Bq", 4, int(d)))      # bool is an int subclass: same branch as Bob's isinstance order
    elif isinstance(d, int):
        h.update(struct.pack("<Bq", 4, d))
    elif d is None:
        h.update(struct.pack("<B", 7))
    else:
        raise TypeError(type(d))

def artifact_digest(rec):
    r = {k: v for k, v in rec.items() if k != "artifact-id"}
    h = hashlib.sha1()
    _dg(r, h)
    return h.hexdigest()

def _load(path):
    with gzip.open(path, "rb") as f:
        return json.load(io.TextIOWrapper(f, encoding="utf8"))

def check_trail(tree, where):
    """Structure, closure and ids of one parsed trail.  Returns error or None."""
    from bob.audit import Audit
    import schema
    try:
        Audit.SCHEMA.validate(json.loads(json.dumps(tree)))
    except schema.SchemaError as e:
        return "%s: does not conform to the record schema: %s" % (where, str(e)[:300])
    art = tree["artifact"]
    refs = {}
    for r in tree["references"]:
        refs[r["artifact-id"]] = r
    for rec in [art] + tree["references"]:
        if artifact_digest(rec) != rec["artifact-id"]:
            return "%s: artifact-id %s is not the digest of its record" % (where, rec["artifact-id"][:12])
    todo = []
    def deps_of(rec):
        d = rec["dependencies"]
        return list(d.get("args", [])) + list(d.get("tools", {}).values()) + ([d["sandbox"]] if "sandbox" in d else [])
    todo = deps_of(art)
    seen = set()
    while todo:
        i = todo.pop()
        if i in seen:
            continue
        seen.add(i)
        if i not in refs:
            return "%s: referenced record %s is missing from the trail (incomplete closure)" % (where, i[:12])
        todo.extend(deps_of(refs[i]))
    return None

TWIN_OF = {}    # recipe name -> name of the recipe whose content it copies (set per case)

def _verify_workspace(proj, info, executed, meta, stats, provenance_seen, may_miss=False, no_audit=False):
    """info = bobq query with detail+bid."""
    from bob.utils import hashDirectory
    hash2canon = {}
    # one workspace may be reached over several package paths (identical variant):
    # the trail records one of them
    paths_of_ws = {}
    recipes_of_vid = {}
    for path, ent in info.items():
        for label, s in ent["steps"].items():
            if s.get("valid"):
                paths_of_ws.setdefault(s["ws"], set()).add(path)
                if label == "dist":
                    recipes_of_vid.setdefault(s["vid"], set()).add(ent["recipe"])
    # Which workspaces did the last invocation visit?  Bob descends into the dependencies of a
    # package only if it builds it; a downloaded or shared package ends the descent.
    by_dist = {}
    for path, ent in info.items():
        d = ent["steps"]["dist"]
        if d.get("valid"):
            by_dist[d["ws"]] = ent
    visited = set()
    def visit(ent):
        d = ent["steps"]["dist"]
        if d["ws"] in visited:
            return
        visited.add(d["ws"])
        if d.get("prov") != "built":
            return
        for lab in ("src", "build"):
            st = ent["steps"][lab]
            if st.get("valid"):
                visited.add(st["ws"])
        for lab in ("src", "build", "dist"):
            st = ent["steps"][lab]
            if not st.get("valid"):
                continue
            for a in list(st.get("args", [])) + list(st.get("tools", {}).values()):
                if a in by_dist:
                    visit(by_dist[a])
    for path, ent in info.items():
        if "/" not in path:
            visit(ent)
    for path, ent in sorted(info.items()):
        for label, s in ent["steps"].items():
            if not s.get("valid"):
                continue
            ws = os.path.join(proj, s["ws"])
            if not os.path.lexists(ws):
                continue
            if s["ws"] not in visited:
                stats.inc("unvisited_workspaces_skipped")
                continue
            ap = os.path.join(os.path.dirname(ws), "audit.json.gz")
            where = "%s[%s]" % (path, label)
            if not os.path.exists(ap):
                if may_miss:
                    stats.inc("probe_trail_missing_after_no_audit")
                    continue
                return "%s: audit.json.gz missing" % where
            if no_audit and os.path.dirname(s["ws"]) in executed and not os.path.islink(ap):
                return "%s: the step was executed with --no-audit but a trail (of an earlier execution) is still there" % where
            try:
                tree = _load(ap)
            except (OSError, ValueError) as e:
                return "%s: trail unreadable: %s" % (where, e)
            err = check_trail(tree, where)
            if err:
                return err
            art = tree["artifact"]
            stats.inc("trails_checked")
            if art["variant-id"] != s["vid"]:
                return "%s: variant-id %s recorded, step has %s" % (where, art["variant-id"][:12], s["vid"][:12])
            storage = s.get("storage") or s["ws"]
            sp = storage if os.path.isabs(storage) else os.path.join(proj, storage)
            actual = hashDirectory(sp).hex()
            if art["result-hash"] != actual:
                return "%s: result-hash %s recorded, workspace content hashes to %s" % (where, art["result-hash"][:12], actual[:12])
            cd = treecmp.canon_digest(sp, ignore_scm=True)
            if hash2canon.setdefault(actual, cd) != cd:
                return "%s: equal result hashes for different trees" % where
            if label == "src":
                if art["build-id"] != art["result-hash"]:
                    return "%s: checkout build-id differs from result-hash" % where
            elif s.get("bid") is not None and art["build-id"] != s["bid"] and \
                    (os.path.dirname(s["ws"]) in executed or s.get("prov") in ("downloaded", "shared")):
                # (a step that was *skipped* keeps the trail of the execution that produced its workspace:
                # Bob skips on unchanged input hashes, so when something upstream was rebuilt with an
                # identical result the step's Build-Id moves on while content and trail stay those of
                # the earlier execution -- counted as a probe below, not as a violation)
                return "%s: build-id %s recorded, recomputed from the recorded sources %s" % (where, art["build-id"][:12], s["bid"][:12])
            if label != "src" and s.get("bid") is not None and art["build-id"] != s["bid"]:
                stats.inc("probe_skipped_step_keeps_trail_of_earlier_build_id")
            m = art["meta"]
            exp = {"recipe": ent["recipe"], "step": label, "language": "bash"}
            for k, v in exp.items():
                if m.get(k) != v:
                    # a downloaded or shared result carries the trail of whoever produced the artifact:
                    # with identical recipes under two names (equal Build-Ids) that may be the twin
                    # (the twin may have been identical only in the project state of the uploader)
                    if k == "recipe" and label == "dist" and s.get("prov") in ("downloaded", "shared") \
                            and (m.get(k) in recipes_of_vid.get(s["vid"], ())
                                 or TWIN_OF.get(m.get(k), m.get(k)) == TWIN_OF.get(ent["recipe"], ent["recipe"])):
                        stats.inc("probe_trail_of_identical_twin_recipe")
                        continue
                    return "%s: meta.%s is %r, expected %r" % (where, k, m.get(k), v)
            # (the query lists every distinct package once, under one of its paths; the trail may
            # carry another path of the same package, so only root and package name are compared)
            mp = (m.get("package") or "").split("/")
            twin_ok = (label == "dist" and s.get("prov") in ("downloaded", "shared")
                       and (mp[-1] in recipes_of_vid.get(s["vid"], ())
                            or TWIN_OF.get(mp[-1], mp[-1]) == TWIN_OF.get(ent["recipe"], ent["recipe"])))
            if m.get("package") not in paths_of_ws[s["ws"]] and not twin_ok \
                    and not (mp[0] == path.split("/")[0] and mp[-1] == path.split("/")[-1]):
                return "%s: meta.package is %r, expected a path of package %s" % (where, m.get("package"), sorted(paths_of_ws[s["ws"]]))
            if "bob" not in m:
                return "%s: meta.bob missing" % where
            is_link = os.path.islink(ws)
            prov = (s.get("prov") or "?") if label == "dist" else ("executed" if os.path.dirname(s["ws"]) in executed else "kept")
            if label == "dist" and prov == "built" and os.path.dirname(s["ws"]) not in executed:
                prov = "built-earlier"
            provenance_seen.add(prov)
            if os.path.dirname(s["ws"]) in executed:
                for k, v in meta.items():
                    if m.get(k) != v:
                        return "%s: -M define %s missing from meta (%r)" % (where, k, m.get(k))
                # dependencies in declared order
                exp_args = []
                for a in s.get("args", []):
                    if a is None:
                        continue
                    dp = os.path.join(proj, os.path.dirname(a), "audit.json.gz")
                    try:
                        exp_args.append(_load(dp)["artifact"]["artifact-id"])
                    except (OSError, ValueError):
                        return "%s: trail of argument %s unreadable" % (where, a)
                if art["dependencies"].get("args", []) != exp_args:
                    return "%s: args %s recorded, dependencies' trails are %s" % (
                        where, [x[:8] for x in art["dependencies"].get("args", [])], [x[:8] for x in exp_args])
                exp_tools = {}
                for n, tws in s.get("tools", {}).items():
                    dp = os.path.join(proj, os.path.dirname(tws), "audit.json.gz")
                    try:
                        exp_tools[n] = _load(dp)["artifact"]["artifact-id"]
                    except (OSError, ValueError):
                        return "%s: trail of tool %s unreadable" % (where, n)
                if art["dependencies"].get("tools", {}) != exp_tools:
                    return "%s: tools recorded %s, expected %s" % (where, art["dependencies"].get("tools"), exp_tools)
                stats.inc("dependency_lists_checked")
            if label == "src":
                for scm in art.get("scms", []):
                    if scm.get("type") == "import":
                        d = hashDirectory(os.path.join(sp, scm["dir"])).hex()
                        if scm["digest"]["value"] != d:
                            return "%s: import SCM digest %s recorded, directory hashes to %s" % (where, scm["digest"]["value"][:12], d[:12])
                        stats.inc("scm_records_checked")
                    elif scm.get("type") == "url":
                        fp = os.path.join(sp, scm["dir"])
                        if os.path.isfile(fp):
                            d = hashlib.sha1(open(fp, "rb").read()).hexdigest()
                            if scm["digest"]["value"] != d:
                                return "%s: url SCM digest %s recorded for %s, the file in the workspace hashes to %s" % (
                                    where, scm["digest"]["value"][:12], scm["dir"], d[:12])
                            stats.inc("scm_records_checked")
                            stats.inc("url_scm_records_checked")
            if ent.get("metaEnv") and label == "dist" and os.path.dirname(s["ws"]) in executed:
                if art.get("metaEnv", {}) != ent["metaEnv"]:
                    return "%s: metaEnv %s recorded, package has %s" % (where, art.get("metaEnv"), ent["metaEnv"])
    return None

def _verify_archive(arch, stats):
    for root, dirs, files in os.walk(arch):
        for f in files:
            if not f.endswith(".tgz"):
                continue
            p = os.path.join(root, f)
            rel = os.path.relpath(p, arch)
            bid = rel.replace("/", "")[:-len("-1.tgz")]
            try:
                with tarfile.open(p, "r:gz") as tf:
                    m = tf.extractfile("meta/audit.json.gz").read()
                tree = json.loads(gzip.decompress(m))
            except Exception as e:
                return "artifact %s: embedded trail unreadable: %s" % (rel, e)
            err = check_trail(tree, "artifact " + rel)
            if err:
                return err
            if tree["artifact"]["build-id"] != bid:
                return "artifact %s: stored under build-id %s but its trail records %s" % (rel, bid[:12], tree["artifact"]["build-id"][:12])
            stats.inc("archive_artifacts_checked")
    return None

def _verify_share(store, stats):
    for root, dirs, files in os.walk(store):
        if "pkg.json" in files and root.endswith("-3"):
            bid = os.path.relpath(root, store).replace("/", "")[:-2]
            try:
                tree = _load(os.path.join(root, "audit.json.gz"))
            except Exception as e:
                return "shared package %s: trail unreadable: %s" % (bid[:12], e)
            err = check_trail(tree, "shared " + bid[:12])
            if err:
                return err
            if tree["artifact"]["build-id"] != bid:
                return "shared package stored under %s but its trail records build-id %s" % (bid[:12], tree["artifact"]["build-id"][:12])
            stats.inc("shared_packages_checked")
            dirs[:] = []
    return None

def _glob_src(proj):
    base = os.path.join(proj, "dev", "src")
    out = []
    for root, dirs, files in os.walk(base):
        if os.path.basename(root) == "workspace":
            out.append(root)
            dirs[:] = []
        dirs.sort()
    return out

def run_case(case):
    top = common.scratch_dir("c14-%d" % os.getpid())
    stats = common.Counter()
    log = []
    viol = None
    prov = set()
    try:
        arch = os.path.join(top, "archive")
        store = os.path.join(top, "store")
        os.makedirs(arch)
        projs = {"A": os.path.join(top, "wa", "proj"), "B": os.path.join(top, "other", "deeper", "proj")}
        model = dict(case["model"])
        TWIN_OF.clear()
        TWIN_OF.update({n: r["label"] for n, r in model["recipes"].items() if r.get("label")})
        model["default_extra"] = {"archive": {"backend": "file", "path": arch}, "share": {"path": store}}
        model["upstream_root"] = os.path.join(top, "upstream")
        projgen.write_upstream(model)
        hist = [model]
        files = {}
        clock = projgen.StampClock()
        for p in projs.values():
            os.makedirs(p)
        mat = {"A": None, "B": None}
        tainted = set()     # workspaces in which some invocation ran with --no-audit
        for n, op in enumerate(case["ops"]):
            if "edit" in op:
                m2 = projgen.apply_edit(model, op["edit"], hist)
                m2["default_extra"] = model["default_extra"]
                m2["upstream_root"] = model["upstream_root"]
                projgen.write_upstream(m2)
                model = m2
                hist.append(model)
                continue
            w = op["ws"]
            proj = projs[w]
            if op.get("tamper") == "overwrite-fetched":
                # the user edits a file that a digest-pinned url SCM fetched (the checkout is not run again)
                fetched = []
                for d in _glob_src(proj):
                    for root_, _d, files_ in os.walk(d):
                        fetched += [os.path.join(root_, f) for f in sorted(files_) if f.endswith(".dat") or f == "data.bin"]
                fetched.sort()
                if fetched:
                    common.write_file(fetched[op["pick"] % len(fetched)], "edited by the user %d\n" % n)
                    stats.inc("fetched_file_tampered")
                continue
            if "tamper" in op:
                cands = sorted(d for d in _glob_src(proj) if os.path.exists(os.path.join(d, "src-out.txt")))
                if cands:
                    d = cands[op["pick"] % len(cands)]
                    if op["tamper"] in ("overwrite-generated", "both"):
                        common.write_file(os.path.join(d, "src-out.txt"), "edited by the user %d\n" % n)
                    if op["tamper"] in ("add-file", "both"):
                        common.write_file(os.path.join(d, "user-note-%d.txt" % n), "note %d\n" % n)
                    if op["tamper"] == "remove-added":
                        # the user takes the additions back: the workspace has the content of an earlier build again
                        for f in sorted(os.listdir(d)):
                            if f.startswith("user-note-"):
                                os.unlink(os.path.join(d, f))
                    stats.inc("source_workspace_tampered")
                continue
            mat[w] = projgen.materialise(model, proj, clock, mat[w])
            argv = ["dev", "-j", str(op["jobs"]), "--download", op["download"]]
            if op["upload"]:
                argv.append("--upload")
            argv.append("--shared" if op.get("shared", True) else "--no-shared")
            if op.get("no_audit"):
                # the user opts out for this invocation: steps it executes lose their trail (a stale one
                # must not survive), and later invocations may be unable to write trails above them
                argv.append("--no-audit")
                tainted.add(w)
                stats.inc("invocations_without_audit")
            for k, v in sorted(case["meta"].items()):
                argv += ["-M", "%s=%s" % (k, v)]
            argv.append("root")
            r = buildsim.bob(proj, argv, {"sched_seed": op["seed"]})
            log.append((n, w, r.rc, len(r.scripts_run())))
            stats.inc("invocations")
            if r.rc != 0:
                stats.inc("failed_invocations")
                continue
            executed = {os.path.dirname(s) for s in r.scripts_run()}
            info = bobq.query(proj, want=("detail", "bid"))
            err = _verify_workspace(proj, info, executed, case["meta"], stats, prov,
                                    may_miss=w in tainted, no_audit=bool(op.get("no_audit")))
            if err is None:
                err = _verify_archive(arch, stats)
            if err is None:
                err = _verify_share(store, stats)
            if err:
                viol = {"kind": "audit-trail-wrong", "detail": "after invocation %d in workspace %s (%s): %s" % (n, w, " ".join(argv[1:-1]), err)}
                break
            if "downloaded" in r.output:
                import re
                m = re.search(r"(\d+) downloaded", r.output)
                if m and int(m.group(1)) > 0:
                    prov.add("downloaded")
                    stats.inc("packages_downloaded", int(m.group(1)))
    finally:
        common.rmtree(top)
    return {"violation": viol, "digest": common.digest_of(log), "stats": dict(stats),
            "nontrivial": len(prov) >= 3, "sim_time": float(len(log)),
            "sample": {"features": case["model"].get("features"), "ops": case["ops"][:6], "provenance": sorted(prov), "log": log}}
