"""C09 Archive uploads are atomic and never overwrite.

Engine B (procsim): 2..5 real processes -- uploaders with differing payloads,
cache-mirroring downloaders (Tee/MirrorWriter publishing into the archive under
test), readers, metadata uploaders -- step through one LocalArchive directory
one file-system operation at a time under a seeded scheduler, with SIGKILL and
errno faults at sim points of the upload path.

Oracle, evaluated by the parent on the real directory after *every* step:
  (1) <archive>/xx/yy/<id>-1.tgz is absent, or a complete gzip stream (CRC and
      length trailer), a complete tar (end-of-archive reached), contains the
      audit member, and its content is exactly the payload of the actor whose
      publishing step just ran (uploads: compared by content; mirrors: byte
      identical to the mirrored source artifact);
  (2) once present, inode and bytes never change;
  (3) it only ever appears through the publishing operation of an actor -- an
      actor that failed or was killed before that operation leaves nothing.
The validator uses gzip/tarfile from the standard library only.
"""

import gzip
import hashlib
import io
import os
import tarfile

from .. import common, procsim, treegen

PROPERTY = "C09"
LEVEL = "fault_enumeration"
RULE = ("case = archive world (payload sizes, actor mix of uploaders / mirroring downloaders / readers / "
        "metadata uploaders on one build-id) + explicit scheduler decision list + fault list (SIGKILL or "
        "errno at the k-th sim point of an actor; in enumeration cases every sim point of the chosen actor "
        "is killed in turn); non-trivial = at least two actors were interleaved inside each other's upload "
        "window or a fault fired; distinct = digest of the (actor, operation) event log")
COMPONENTS = {"real": ["bob.archive.LocalArchive/_uploadPackage/_downloadPackage/Tee/MirrorWriter/MirrorLeecher/"
                       "LocalArchiveUploader/TarHelper", "kernel tmpfs link/unlink/rename", "SIGKILL"],
              "stub": ["process scheduling (one fs operation at a time, seeded)", "errno injection at seam",
                       "tempfile name sequence (seeded)"],
              "not_exercised": ["HTTP/Azure/custom archive back ends", "Windows rename path"]}
ASSUMPTIONS = ["file-system operations (link, unlink, rename, write) are individually atomic w.r.t. other processes",
               "no power loss: a killed process's completed writes are visible (crash = process crash)"]
SHRINK = ["faults", "actors", "decisions"]

BID = bytes([0x11] * 20)

def bid_of(rnd):
    return bytes([0x11 + rnd] * 20)

def art_rel(bid):
    h = bid.hex() + "-1"
    return os.path.join(h[0:2], h[2:4], h[4:] + ".tgz")

def plan(tier):
    if tier == "thorough":
        return {"cases": 12000, "timeout": 300, "wall_budget": 1500, "recheck": 12, "batch": 2, "nproc": 4}
    # process creation is the bottleneck in this sandbox (~400 forks/s in total,
    # not improved by parallelism); one run needs 3..6 forks
    return {"cases": 400, "timeout": 240, "wall_budget": 90, "recheck": 3, "batch": 2, "nproc": 4}

SIZES = [0, 1, 100, 400, 3000, 9000, 10100, 10240, 10300, 20400, 20480, 30000, 40000]

def gen_case(rng, tier, index):
    nact = rng.choice([2, 2, 3, 3, 4, 5])
    actors = []
    kinds = ["upload"] * 5 + ["mirror"] * 3 + ["reader"] * 2 + ["meta"]
    for i in range(nact):
        k = rng.choice(kinds) if i else rng.choice(["upload", "mirror"])
        a = {"kind": k, "name": "%s%d" % (k[0], i)}
        if k in ("upload", "mirror"):
            a["size"] = rng.choice(SIZES) + rng.choice([0, 0, 1, 7, 13, rng.randrange(512)])
            a["tag"] = "%x" % rng.getrandbits(32)
            a["nfiles"] = rng.choice([1, 1, 2, 4])
        if k in ("upload", "mirror"):
            # configuration knob: explicit file/directory modes take another publish path (chmod first)
            a["modes"] = rng.random() < 0.3
        if k == "upload":
            a["nofail"] = rng.random() < 0.2
        if k == "mirror":
            a["nofail"] = rng.random() < 0.5
        actors.append(a)
    faults = []
    mode = rng.choice(["none", "none", "kill", "errno", "mixed", "enum"])
    case = {"actors": actors, "sched_seed": rng.getrandbits(32),
            "stickiness": rng.choice([0.0, 0.5, 0.9, 0.97]), "decisions": None,
            "prepopulated": rng.random() < 0.1, "stride": rng.choice([1, 1, 4]),
            "rounds": rng.choice([1, 2, 3, 4])}
    if mode in ("kill", "mixed"):
        a = rng.choice(actors)
        faults.append({"actor": a["name"], "at": rng.randrange(1, 40 * case["rounds"]), "kind": "kill"})
    if mode in ("errno", "mixed"):
        a = rng.choice(actors)
        faults.append({"actor": a["name"], "at": rng.randrange(1, 40 * case["rounds"]), "kind": "errno",
                       "errno": rng.choice([28, 5, 13, 122])})      # ENOSPC, EIO, EACCES, EDQUOT (never EINTR: PEP 475)
    if mode == "enum":
        cand = [a for a in actors if a["kind"] in ("upload", "mirror")]
        case["enumerate_kill"] = rng.choice(cand)["name"]
        # every sim point of that actor is hit in turn by a SIGKILL or by an errno
        case["enumerate_fault"] = rng.choice(["kill", "kill", "errno28", "errno5", "errno13"])
        # keep a quick case below ~40 sub-runs (at most two rounds, sampled points beyond that),
        # a thorough one below ~150
        case["rounds"] = min(case["rounds"], 2 if tier != "thorough" else 3)
        case["enum_max"] = 40 if tier != "thorough" else 150
        case["enum_offset"] = rng.randrange(1000)
    case["faults"] = faults
    return case

def directed_cases(tier):
    """Regression scenarios: a mirroring downloader for artifacts whose packed
    size lands close to a multiple of the tar stream read unit (10240)."""
    out = []
    from bob.archive import TarHelper
    top = common.scratch_dir("c09-directed-%d" % os.getpid())
    try:
        found = 0
        for size in list(range(9000, 11400, 23)) + list(range(19300, 21500, 31)):
            tag = "d%x" % size
            pdir = os.path.join(top, "p")
            common.rmtree(pdir)
            _make_payload(pdir, {"tag": tag, "size": size, "nfiles": 1, "name": "m0"})
            buf = io.BytesIO()
            TarHelper()._pack(None, buf, os.path.join(pdir, "audit.json.gz"), os.path.join(pdir, "content"))
            ln = len(buf.getvalue())
            if 0 < ln % 10240 <= 24:
                out.append({"actors": [{"kind": "mirror", "name": "m0", "size": size, "tag": tag, "nfiles": 1}],
                            "sched_seed": 1, "stickiness": 0.0, "decisions": None, "prepopulated": False,
                            "stride": 1, "rounds": 1, "faults": [], "directed": "mirror packed_len=%d" % ln})
                found += 1
                if found >= (6 if tier == "thorough" else 3):
                    break
    finally:
        common.rmtree(top)
    # every file-system operation of a mirroring download / of an upload fails in turn (ENOSPC),
    # also for archives that are configured not to fail the build (`nofail`)
    for kind, nofail in (("mirror", True), ("mirror", False), ("upload", True)):
        out.append({"actors": [{"kind": kind, "name": kind[0] + "0", "size": 20013, "tag": "e%s%d" % (kind[0], nofail), "nfiles": 2,
                                "nofail": nofail, "modes": False},
                               {"kind": "reader", "name": "r1"}],
                    "sched_seed": 11, "stickiness": 0.9, "decisions": None, "prepopulated": False, "stride": 1, "rounds": 1,
                    "faults": [], "enumerate_kill": kind[0] + "0", "enumerate_fault": "errno28", "enum_max": 60, "enum_offset": 0,
                    "directed": "errno at every operation of a %s (nofail=%s)" % (kind, nofail)})
    return out

# ---------------------------------------------------------------------------
# world

def _make_payload(pdir, a):
    content = os.path.join(pdir, "content")
    os.makedirs(content)
    common.write_file(os.path.join(content, "marker"), a["name"] + ":" + a["tag"])
    per = a["size"] // max(1, a["nfiles"])
    for i in range(a["nfiles"]):
        d = content if i % 2 == 0 else os.path.join(content, "sub")
        os.makedirs(d, exist_ok=True)
        common.write_file(os.path.join(d, "f%d" % i), treegen.content_bytes(a["tag"] + str(i), per))
    os.symlink("marker", os.path.join(content, "lnk"))
    common.write_file(os.path.join(pdir, "audit.json.gz"),
                      gzip.compress(('{"payload": "%s"}' % a["tag"]).encode(), mtime=0))
    # simulated stat clock: tar headers carry mtimes, so pin them
    t = 1_500_000_000
    for r, ds, fs in os.walk(pdir):
        for n in ds + fs:
            os.utime(os.path.join(r, n), (t, t), follow_symlinks=False)
    os.utime(pdir, (t, t))

def _payload_sig(pdir):
    """Expected member list of an artifact built from this payload."""
    sig = {}
    for root, dirs, files in os.walk(os.path.join(pdir, "content")):
        for f in files:
            p = os.path.join(root, f)
            rel = os.path.relpath(p, pdir)
            if os.path.islink(p):
                sig[rel] = "l:" + os.readlink(p)
            else:
                sig[rel] = "f:" + hashlib.sha256(common.read_file(p)).hexdigest()
        for d in dirs:
            sig[os.path.relpath(os.path.join(root, d), pdir)] = "d"
    sig["content"] = "d"
    sig["meta/audit.json.gz"] = "f:" + hashlib.sha256(common.read_file(os.path.join(pdir, "audit.json.gz"))).hexdigest()
    return sig

def validate_artifact(raw):
    """Independent validator.  Returns (ok, reason, signature)."""
    try:
        data = gzip.decompress(raw)     # checks CRC32 + ISIZE of every member, raises on truncation
    except Exception as e:
        return False, "gzip: %s: %s" % (type(e).__name__, e), None
    if len(data) % 512 != 0 or len(data) < 1024 or data[-1024:] != b"\0" * 1024:
        return False, "tar: no end-of-archive marker (len %d)" % len(data), None
    sig = {}
    try:
        with tarfile.open(fileobj=io.BytesIO(data), mode="r:") as tf:
            if tf.pax_headers.get("bob-archive-vsn") != "1":
                return False, "tar: pax header bob-archive-vsn missing", None
            for m in tf:
                if m.isdir():
                    sig[m.name] = "d"
                elif m.issym():
                    sig[m.name] = "l:" + m.linkname
                elif m.isreg():
                    sig[m.name] = "f:" + hashlib.sha256(tf.extractfile(m).read()).hexdigest()
                else:
                    sig[m.name] = "?"
    except Exception as e:
        return False, "tar: %s: %s" % (type(e).__name__, e), None
    if "meta/audit.json.gz" not in sig:
        return False, "audit member missing", None
    return True, "", sig

# ---------------------------------------------------------------------------
# actors (run in forked children)

def _install(stride):
    import bob.archive as A
    import os as _os
    procsim.WRITE_STRIDE = stride
    A.os = procsim.ModProxy(_os, "os",
        points={"link", "unlink", "replace", "rename", "chmod", "makedirs", "remove"},
        sub={"path": procsim.ModProxy(_os.path, "os.path", points={"isfile", "isdir", "exists"})})
    A.open = procsim.make_open()
    A.NamedTemporaryFile = procsim.make_named_temporary_file()

def _classify(fn):
    from bob.errors import BuildError
    try:
        return fn()
    except BuildError as e:
        return ("builderror", e.slogan)

def _pdir(root, a, rnd):
    return os.path.join(root, "pay", "%s.%d" % (a["name"], rnd))

def _rounds(fn, rounds):
    """Each actor process performs `rounds` independent operations, round r on
    build-id r (amortises the cost of process creation)."""
    out = []
    for r in range(rounds):
        out.append(_classify(lambda: fn(r)))
    return out

def act_upload(root, a, stride, rounds):
    _install(stride)
    from bob.archive import LocalArchive
    flags = ["download", "upload"] + (["nofail"] if a.get("nofail") else [])
    spec = {"backend": "file", "path": os.path.join(root, "arch"), "flags": flags}
    if a.get("modes"):
        spec.update({"fileMode": 0o640, "directoryMode": 0o750})
    ar = LocalArchive(spec)
    ar.wantUploadLocal(True)
    def go(r):
        pdir = _pdir(root, a, r)
        msg, kind = ar._uploadPackage(bid_of(r), ".tgz", os.path.join(pdir, "audit.json.gz"),
                                      os.path.join(pdir, "content"))
        return ("ok" if msg == "ok" else ("skipped" if "skipped" in msg else "error"), msg)
    return _rounds(go, rounds)

def act_mirror(root, a, stride, rounds):
    _install(stride)
    from bob.archive import LocalArchive
    src = LocalArchive({"backend": "file", "path": os.path.join(root, "src", a["name"])})
    src.wantDownloadLocal(True)
    spec = {"backend": "file", "path": os.path.join(root, "arch"),
            "flags": ["download", "upload", "cache"] + (["nofail"] if a.get("nofail") else [])}
    if a.get("modes"):
        spec.update({"fileMode": 0o640, "directoryMode": 0o750})
    cache = LocalArchive(spec)
    def go(r):
        out = os.path.join(root, "out", "%s.%d" % (a["name"], r))
        os.makedirs(out)
        ret, msg, kind = src._downloadPackage(bid_of(r), ".tgz", os.path.join(out, "audit.json.gz"),
                                              os.path.join(out, "content"), [cache], "ws")
        return ("ok" if ret else "notfound", msg)
    return _rounds(go, rounds)

def act_reader(root, a, stride, rounds):
    _install(stride)
    from bob.archive import LocalArchive
    ar = LocalArchive({"backend": "file", "path": os.path.join(root, "arch")})
    ar.wantDownloadLocal(True)
    def go(r):
        out = os.path.join(root, "out", "%s.%d" % (a["name"], r))
        os.makedirs(out)
        ret, msg, kind = ar._downloadPackage(bid_of(r), ".tgz", os.path.join(out, "audit.json.gz"),
                                             os.path.join(out, "content"), [], "ws")
        if not ret:
            return ("notfound", msg)
        # what did we get?  report the signature of the extracted tree
        return ("ok", _payload_sig(out))
    return _rounds(go, rounds)

def act_meta(root, a, stride, rounds):
    _install(stride)
    from bob.archive import LocalArchive
    ar = LocalArchive({"backend": "file", "path": os.path.join(root, "arch")})
    ar.wantUploadLocal(True)
    def go(r):
        msg, kind = ar._uploadLocalFile(bid_of(r), ".buildid", a["name"].encode() * 3)
        return ("ok", msg)
    return _rounds(go, rounds)

ACT = {"upload": act_upload, "mirror": act_mirror, "reader": act_reader, "meta": act_meta}
PUBLISH_OPS = ("os.link", "os.replace", "os.rename")

# ---------------------------------------------------------------------------

def _build_world(root, case):
    from bob.archive import LocalArchive
    os.makedirs(os.path.join(root, "arch"))
    os.makedirs(os.path.join(root, "out"))
    info = {}
    rounds = case.get("rounds", 1)
    for a in case["actors"]:
        if a["kind"] not in ("upload", "mirror"):
            continue
        for r in range(rounds):
            pdir = _pdir(root, a, r)
            _make_payload(pdir, dict(a, tag="%s.%d" % (a["tag"], r),
                                     size=a["size"] + 37 * r))
            info[(a["name"], r)] = {"sig": _payload_sig(pdir)}
            if a["kind"] == "mirror":
                src = LocalArchive({"backend": "file", "path": os.path.join(root, "src", a["name"])})
                src.wantUploadLocal(True)
                src._uploadPackage(bid_of(r), ".tgz", os.path.join(pdir, "audit.json.gz"),
                                   os.path.join(pdir, "content"))
                raw = common.read_file(os.path.join(root, "src", a["name"], art_rel(bid_of(r))))
                info[(a["name"], r)]["src_sha"] = hashlib.sha256(raw).hexdigest()
    if case.get("prepopulated"):
        a = {"name": "pre", "tag": "pre", "size": 777, "nfiles": 1}
        pdir = os.path.join(root, "pay", "pre")
        _make_payload(pdir, a)
        ar = LocalArchive({"backend": "file", "path": os.path.join(root, "arch")})
        ar.wantUploadLocal(True)
        ar._uploadPackage(bid_of(0), ".tgz", os.path.join(pdir, "audit.json.gz"), os.path.join(pdir, "content"))
        info[("pre", 0)] = {"sig": _payload_sig(pdir)}
    return info

class _ArtState:
    def __init__(self, path):
        self.path = path
        self.id = None
        self.sha = None
        self.sig = None

def _one_run(case, faults, tag, stats):
    root = common.scratch_dir("c09-%07d-%s" % (os.getpid(), tag))
    common.pin_process_nondeterminism(2)
    viol = None
    sim = None
    rounds = case.get("rounds", 1)
    try:
        info = _build_world(root, case)
        arts = [_ArtState(os.path.join(root, "arch", art_rel(bid_of(r)))) for r in range(rounds)]
        sim = procsim.ProcSim(root, decisions=case.get("decisions"), sched_seed=case["sched_seed"],
                              stickiness=case["stickiness"], faults=faults)
        kinds = {}
        for a in case["actors"]:
            kinds[a["name"]] = a
            sim.spawn(a["name"], ACT[a["kind"]], root, a, case.get("stride", 1), rounds)
        for s_ in arts:
            if os.path.exists(s_.path):
                st = os.stat(s_.path)
                raw = common.read_file(s_.path)
                s_.id = (st.st_ino, st.st_size)
                s_.sha = hashlib.sha256(raw).hexdigest()
                s_.sig = validate_artifact(raw)[2]
        box = {"viol": None}

        def check_art(rnd, seen, actor, cur):
            art = seen.path
            if not os.path.lexists(art):
                if seen.id is not None:
                    return {"kind": "artifact-vanished", "detail": "after %s %s" % (actor.name, cur[1])}
                return None
            st = os.lstat(art)
            ident = (st.st_ino, st.st_size)
            if seen.id is not None:
                if ident != seen.id:
                    return {"kind": "artifact-replaced",
                            "detail": "artifact inode/size changed %s -> %s by %s at %s" % (
                                seen.id[1], ident[1], actor.name, cur[1])}
                if cur[1] in ("KILL", "retry-lock", "start") or cur[1].startswith("os.path"):
                    return None
                sha = hashlib.sha256(common.read_file(art)).hexdigest()
                if sha != seen.sha:
                    return {"kind": "artifact-modified",
                            "detail": "bytes changed in place by %s at %s" % (actor.name, cur[1])}
                return None
            # first appearance
            raw = common.read_file(art)
            ok, why, sig = validate_artifact(raw)
            seen.id, seen.sha, seen.sig = ident, hashlib.sha256(raw).hexdigest(), sig
            stats.inc("published_by_" + kinds[actor.name]["kind"])
            if cur[1] not in PUBLISH_OPS:
                return {"kind": "artifact-visible-before-publish",
                        "detail": "artifact name appeared at op %s of %s (%s)" % (cur[1], actor.name, why or "valid")}
            if not ok:
                return {"kind": "incomplete-artifact-published",
                        "detail": "published by %s (%s) via %s: %s; size=%d" % (
                            actor.name, kinds[actor.name]["kind"], cur[1], why, len(raw))}
            exp = info.get((actor.name, rnd))
            if exp is None or sig != exp["sig"]:
                return {"kind": "artifact-content-mismatch",
                        "detail": "artifact published by %s does not carry its payload" % actor.name}
            if kinds[actor.name]["kind"] == "mirror" and seen.sha != exp["src_sha"]:
                return {"kind": "mirror-not-identical",
                        "detail": "mirrored copy differs from source artifact (len %d)" % len(raw)}
            return None

        def on_step(actor, cur):
            for rnd, seen in enumerate(arts):
                v = check_art(rnd, seen, actor, cur)
                if v is not None:
                    box["viol"] = v
                    return False
            return True

        sim.run(on_step)
        viol = box["viol"]
        if viol is None and sim.deadlock:
            viol = {"kind": "deadlock", "detail": "all actors blocked"}
        # per-actor results
        results = {}
        for a in sim.actors:
            if a.result is not None and a.result[0] == "exc":
                msg = a.result[1][0]
                if "SimHarnessError" in msg:
                    raise procsim.SimHarnessError(msg)
                if viol is None:
                    viol = {"kind": "unexpected-exception", "detail": "%s: %s" % (a.name, a.result[1][1][-800:])}
                results[a.name] = (a.state, "exc")
                continue
            rl = a.result[1] if a.result else []
            results[a.name] = (a.state, [x[0] for x in rl])
            for rnd, x in enumerate(rl):
                if (viol is None and kinds[a.name]["kind"] == "reader" and x[0] == "ok" and not faults):
                    if not any(x[1] == i["sig"] for i in info.values()):
                        viol = {"kind": "reader-got-partial-artifact",
                                "detail": "%s extracted a tree that is no uploaded payload" % a.name}
                # a fault-free uploader that reported success must have left the artifact there
                if (viol is None and not faults and kinds[a.name]["kind"] == "upload" and x[0] == "ok"
                        and arts[rnd].id is None):
                    viol = {"kind": "upload-ok-but-absent", "detail": "%s round %d" % (a.name, rnd)}
                if x[0] == "skipped":
                    stats.inc("probe_upload_skipped_exists")
                if x[0] == "builderror":
                    stats.inc("probe_builderror_returned")
        for f in sim.fired:
            stats.inc("fault_" + f[0])
        stats.inc("steps", sim.step)
        # leftovers are probes only
        left = [f for r, d, fs in os.walk(os.path.join(root, "arch")) for f in fs if f.startswith("tmp")]
        if left:
            stats.inc("probe_leftover_tempfiles", len(left))
        inter = _interleaved(sim.log)
        return viol, sim, results, inter
    finally:
        if sim is not None:
            sim.shutdown()
        common.rmtree(root)

def _interleaved(log):
    """Did two actors alternate at least twice (a b a)?"""
    names = [e[1] for e in log if e[2] != "start"]
    comp = [n for i, n in enumerate(names) if i == 0 or names[i - 1] != n]
    return len(comp) >= 3

def run_case(case):
    stats = common.Counter()
    viol, sim, results, inter = _one_run(case, case.get("faults", []), "m", stats)
    log = [(e[1], e[2], e[3]) for e in sim.log]
    runs = 1
    npts = {a.name: a.npoints for a in sim.actors}
    if viol is None and case.get("enumerate_kill") and case["enumerate_kill"] in npts:
        name = case["enumerate_kill"]
        base = dict(case, decisions=list(sim.decisions))
        ef = case.get("enumerate_fault", "kill")
        step = 1
        if case.get("enum_max") and npts[name] > case["enum_max"]:
            step = -(-npts[name] // case["enum_max"])
        stats.inc("enumeration_exhaustive" if step == 1 else "enumeration_sampled")
        for k in range(1 + (case.get("enum_offset", 0) % step), npts[name] + 1, step):
            flt = ({"actor": name, "at": k, "kind": "kill"} if ef == "kill" else
                   {"actor": name, "at": k, "kind": "errno", "errno": int(ef[5:])})
            v, s2, r2, _ = _one_run(base, [flt], "k%d" % k, stats)
            runs += 1
            log.append(("enum", k, r2))
            if v is not None:
                viol = dict(v, detail="[%s %s at point %d] %s" % (ef, name, k, v["detail"]))
                break
        stats.inc("enumerated_fault_points", npts[name])
    stats.inc("runs", runs)
    stats.inc("actors_" + str(len(case["actors"])))
    fired = any(k.startswith("fault_") for k in stats)
    return {"violation": viol, "digest": common.digest_of(log), "key": common.digest_of(log),
            "stats": dict(stats), "nontrivial": bool(inter or fired), "sim_time": float(stats.get("steps", 0)),
            "sample": {"actors": case["actors"], "faults": case.get("faults"),
                       "enumerate_kill": case.get("enumerate_kill"), "directed": case.get("directed"),
                       "first_events": log[:14], "results": results}}

def fixup(case):
    names = {a["name"] for a in case["actors"]}
    if not names:
        return None
    case["faults"] = [f for f in case.get("faults", []) if f["actor"] in names]
    if case.get("enumerate_kill") and case["enumerate_kill"] not in names:
        case.pop("enumerate_kill")
    if case.get("decisions") is None:
        case["decisions"] = None
    return case
