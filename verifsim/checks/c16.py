"""C16 Workspace directories separate variants; clean removes only garbage.

History invariant on engine-A runs: generated projects with several variants
per recipe go through edit histories interleaved with `bob dev`, `bob build`,
`bob clean [--release|--develop] [-s] [--dry-run]` (all under the simulated
loop); some invocations are killed inside the sqlite transaction that refreshes the
develop directory map (the map must survive: rule (b) spans the killed invocation).  After every operation a query child computes the map
(kind, recipe, Variant-Id) -> directory; the seam records what every step script
finds in its workspace when it starts.

 (a) two steps of one kind share a directory only if their Variant-Ids (and in
     develop mode their recipes) agree;
 (b) a (kind, recipe, variant) present in consecutive maps keeps its directory;
 (c) when a build/package script starts in a directory whose previous occupant
     was another variant, the directory is empty;
 (d) `bob clean` deletes only build/dist workspaces whose content does not
     belong to a current package (sources only with -s, and then only unused
     ones); `--dry-run` changes nothing;
 (e) a build after `clean` re-executes no build/package script if everything was
     up to date before.
"""

import os

from .. import common, projgen, buildsim, bobq, treecmp

PROPERTY = "C16"
LEVEL = "exploration"
RULE = ("case = generated project rich in per-path variants (dependency environments, diamonds) + history of edits "
        "(biased to variant-changing ones and reverts), dev/build invocations and clean commands; non-trivial = at "
        "least one directory changed its occupant or a clean command deleted something; distinct = digest of the "
        "directory maps along the history")
COMPONENTS = {"real": ["bob dev/build/clean CLI", "cmds/build/state.DevelopDirOracle", "state.getByNameDirectory", "builder prune logic",
                       "cmds/build/clean.collectPaths/doClean"],
              "stub": ["event loop (SimLoop)", "process kill = os._exit at the k-th mutating sqlite statement of .bob-dev-dirs.sqlite3"], "not_exercised": ["external developNamePersister plugins", "attic cleaning", "git sources (C12)"]}
ASSUMPTIONS = ["'content belongs to a package' = the last step script executed in that workspace ran for the package's current Variant-Id"]
SHRINK = ["ops"]

VARIANT_EDITS = ["salt", "var_value", "var_list", "dep_env", "dep_env", "provide_var", "default_env", "revert", "revert",
                 "dep_add", "dep_remove", "class_salt", "use_toggle"]

def plan(tier):
    if tier == "thorough":
        return {"cases": 2500, "timeout": 600, "wall_budget": 1700, "recheck": 5, "nproc": 6}
    return {"cases": 60, "timeout": 400, "wall_budget": 110, "recheck": 2, "nproc": 6}

def gen_case(rng, tier, index):
    feats = {"vars", "depenv", "diamond", "checkoutscript"} | set(rng.sample(["import", "provideVars", "tools", "classes", "forward", "provideDeps", "passthrough", "passthrough", "twins", "twins"], rng.randint(0, 4)))
    model = projgen.gen_valid_project(rng, nmin=4, nmax=7, features=feats)
    ops = [["dev", 1, rng.getrandbits(32)]]
    # values from a tiny pool: variants disappear and *re-appear* while others exist
    pool = rng.choice([None, ["x", "y"], ["x", "y", "z"]])
    hist = [model]
    cur = model
    for _ in range(rng.choice([3, 5, 7, 9])):
        r = rng.random()
        if r < 0.45:
            e = projgen.gen_edit(rng, cur, hist, VARIANT_EDITS, value_pool=pool)
            if e is None:
                continue
            cur = projgen.apply_edit(cur, e, hist)
            hist.append(cur)
            ops.append(["edit", e])
            if rng.random() < 0.3:
                # cleaning between the edit and the rebuild: parents whose new variant has no
                # directory yet stand above results that are still up to date
                ops.append(["clean", rng.choice(["develop", "release", "release"]), rng.random() < 0.2, False])
            if rng.random() < 0.35:
                # the first invocation after the edit is killed inside the refresh of the develop
                # directory map (at its k-th mutating sqlite statement); the user removes the lock and retries
                ops.append(["killdev", rng.randint(1, 8), rng.choice(["before", "after"])])
                ops.append(["dev", 1, rng.getrandbits(32)])
            else:
                ops.append([rng.choice(["dev", "dev", "build"]), rng.choice([1, 2, 4]), rng.getrandbits(32)])
        elif r < 0.65:
            ops.append([rng.choice(["dev", "build"]), rng.choice([1, 2]), rng.getrandbits(32)])
        else:
            ops.append(["clean", rng.choice(["develop", "develop", "release"]), rng.random() < 0.3, rng.random() < 0.3])
    return {"model": model, "ops": ops}

def directed_cases(tier):
    """A variant gets directory n, disappears, another variant takes n, and then the
    first one comes back while the second still exists."""
    import random
    rng = random.Random(16)
    def leaf():
        return projgen._leaf(rng)
    lib = leaf(); lib["buildVars"] = ["VA"]; lib["packageVars"] = ["VA"]
    wrap = leaf(); wrap["depends"] = [{"name": "lib", "use": ["result", "deps"], "environment": {"VA": "c"}}]
    root = leaf(); root["depends"] = [{"name": "lib", "use": ["result", "deps"], "environment": {"VA": "a"}}]
    model = {"recipes": {"root": root, "wrap": wrap, "lib": lib}, "classes": {}, "default_env": {}, "sources": {},
             "order": ["root", "wrap", "lib"], "features": ["directed-reappearing-variant"]}
    out = []
    for mode in ("dev", "build"):
        ops = [[mode, 1, 1],
               ["edit", {"kind": "dep_env", "recipe": "root", "index": 0, "var": "VA", "value": "c"}], [mode, 1, 2],
               ["edit", {"kind": "dep_env", "recipe": "root", "index": 0, "var": "VA", "value": "a"}],
               ["edit", {"kind": "dep_add", "recipe": "root", "dep": "wrap", "pos": 1}], [mode, 2, 3], [mode, 1, 4],
               ["clean", "develop" if mode == "dev" else "release", False, False], [mode, 1, 5]]
        out.append({"model": model, "ops": ops, "directed": "variant re-appears while its old number is taken"})
    # one package (same recipe, same Variant-Id) above two different variants of a dependency that it
    # only hands on: clean has to keep the workspaces below *both* occurrences
    lib = leaf(); lib["buildVars"] = ["VA"]; lib["packageVars"] = ["VA"]
    mid = leaf(); mid["depends"] = [{"name": "lib", "use": []}]; mid["provideDeps"] = ["lib"]
    p1 = leaf(); p1["depends"] = [{"name": "mid", "use": ["result", "deps"], "environment": {"VA": "a"}}]
    p2 = leaf(); p2["depends"] = [{"name": "mid", "use": ["result", "deps"], "environment": {"VA": "b"}}]
    root = leaf(); root["depends"] = [{"name": "p1", "use": ["result", "deps"]}, {"name": "p2", "use": ["result", "deps"]}]
    model2 = {"recipes": {"root": root, "p1": p1, "p2": p2, "mid": mid, "lib": lib}, "classes": {}, "default_env": {}, "sources": {},
              "order": ["root", "p1", "p2", "mid", "lib"], "features": ["directed-same-variant-different-subtree"]}
    for mode in ("dev", "build"):
        cm = "develop" if mode == "dev" else "release"
        ops = [[mode, 1, 1], ["clean", cm, False, True], ["clean", cm, False, False], [mode, 2, 2],
               ["edit", {"kind": "dep_env", "recipe": "p2", "index": 0, "var": "VA", "value": "c"}], [mode, 1, 3],
               ["clean", cm, False, False], [mode, 1, 4]]
        out.append({"model": model2, "ops": ops, "directed": "same package above two variants of a passed-on dependency"})
        # clean right after an edit that gives the upper packages new (never built) variants
        ops = [[mode, 1, 1],
               ["edit", {"kind": "dep_env", "recipe": "p2", "index": 0, "var": "VA", "value": "d"}],
               ["clean", cm, False, True], ["clean", cm, False, False], [mode, 1, 2], [mode, 1, 3]]
        out.append({"model": model2, "ops": ops, "directed": "clean between an edit and the rebuild"})
        # a dry run while a variant is (temporarily) gone, then the edit is taken back
        ops = [[mode, 1, 1],
               ["edit", {"kind": "dep_env", "recipe": "p1", "index": 0, "var": "VA", "value": "b"}],
               ["clean", cm, False, True],
               ["edit", {"kind": "revert", "to": 0}], [mode, 1, 2]]
        out.append({"model": model2, "ops": ops, "directed": "dry run while a variant is gone, then revert"})
    # lib[a] -> 1, lib[b] -> 2; the consumer of lib[a] goes away; lib[c] arrives and the invocation that
    # has to renumber dies inside the refresh; lib[b] must still be found in directory 2 afterwards
    lib = leaf(); lib["buildVars"] = ["VA"]; lib["packageVars"] = ["VA"]
    ma = leaf(); ma["depends"] = [{"name": "lib", "use": ["result", "deps"], "environment": {"VA": "a"}}]
    mb = leaf(); mb["depends"] = [{"name": "lib", "use": ["result", "deps"], "environment": {"VA": "b"}}]
    mc = leaf(); mc["depends"] = [{"name": "lib", "use": ["result", "deps"], "environment": {"VA": "c"}}]
    root = leaf(); root["depends"] = [{"name": "ma", "use": ["result", "deps"]}, {"name": "mb", "use": ["result", "deps"]}]
    model3 = {"recipes": {"root": root, "ma": ma, "mb": mb, "mc": mc, "lib": lib}, "classes": {}, "default_env": {}, "sources": {},
              "order": ["root", "ma", "mb", "mc", "lib"], "features": ["directed-kill-inside-map-refresh"]}
    # release mode: lib[a] -> 1, lib[b] -> 2; lib[a] goes away and is cleaned; a new variant lib[c] must not
    # be given the number of lib[b], which still exists
    for mid_build in (False, True):
        for mode, cm in (("build", "release"), ("dev", "develop")):
            ops = [[mode, 1, 1], ["edit", {"kind": "dep_remove", "recipe": "root", "index": 0}]] + ([[mode, 1, 2]] if mid_build else []) + [
                   ["clean", cm, False, False],
                   ["edit", {"kind": "dep_add", "recipe": "root", "dep": "mc", "pos": 5}], [mode, 1, 3], [mode, 1, 4],
                   ["clean", cm, False, False], [mode, 1, 5]]
            out.append({"model": model3, "ops": ops, "directed": "lower-numbered variant cleaned away, new variant arrives while a higher number is alive"})
    for nth in range(1, 9):
        for when in (("after",) if nth % 2 else ("before", "after")):
            ops = [["dev", 1, 1],
                   ["edit", {"kind": "dep_remove", "recipe": "root", "index": 0}], ["dev", 1, 2],
                   ["edit", {"kind": "dep_add", "recipe": "root", "dep": "mc", "pos": 5 if nth % 3 else 0}],
                   ["killdev", nth, when], ["dev", 1, 3], ["dev", 1, 4]]
            out.append({"model": model3, "ops": ops, "directed": "Bob killed inside the refresh of the develop directory map"})
    return out

def _ws_of_script(script):
    return os.path.join(os.path.dirname(script), "workspace")

def _check_map(mapping, develop):
    """(a): returns violation detail or None; also the key->dir map."""
    by_dir = {}
    keymap = {}
    for path, ent in mapping.items():
        for label, s in ent["steps"].items():
            if not s.get("valid") or not s.get("ws"):
                continue
            ident = (s["vid"], ent["recipe"] if develop else None)
            prev = by_dir.setdefault((label, s["ws"]), (ident, path))
            if prev[0] != ident:
                return ("%s directory %s is shared by %s (%s) and %s (%s)" % (
                    label, s["ws"], prev[1], prev[0], path, ident)), keymap
            keymap[(label, ent["recipe"] if develop else None, s["vid"])] = s["ws"]
    return None, keymap

def _all_workspaces(proj):
    out = {}
    for top in ("dev", "work"):
        base = os.path.join(proj, top)
        for root, dirs, files in os.walk(base):
            if "workspace" in dirs:
                ws = os.path.relpath(os.path.join(root, "workspace"), proj)
                dirs.remove("workspace")
                if not os.path.islink(os.path.join(root, "workspace")):
                    out[ws] = treecmp.canon_digest(os.path.join(root, "workspace"))
    return out

def run_case(case):
    top = common.scratch_dir("c16-%d" % os.getpid())
    stats = common.Counter()
    log = []
    viol = None
    try:
        proj = os.path.join(top, "w", "proj")
        os.makedirs(proj)
        clock = projgen.StampClock()
        model = case["model"]
        hist = [model]
        files = projgen.materialise(model, proj, clock)
        occupant = {}       # workspace -> vid of the last script executed there
        prev_maps = {True: None, False: None}
        uptodate = False    # did the last op leave everything (develop mode) up to date?
        last_mode_built = None
        last_built = {}     # mode -> digest of the project state of the last successful build in that mode
        disturbed = {}      # mode -> a real clean ran since then
        for n, op in enumerate(case["ops"]):
            if op[0] == "edit":
                model = projgen.apply_edit(model, op[1], hist)
                hist.append(model)
                files = projgen.materialise(model, proj, clock, files)
                uptodate = False
                stats.inc("edits")
                continue
            if op[0] == "killdev":
                r = buildsim.bob(proj, ["dev", "root"], {"sched_seed": 0, "sql_kill": {"file": ".bob-dev-dirs.sqlite3", "nth": op[1], "when": op[2]}})
                if r.killed:
                    stats.inc("fault_killed_inside_directory_map_refresh")
                    log.append((n, "killdev", [e[2] for e in r.events if e[0] == "KILL"]))
                else:
                    stats.inc("fault_not_fired")
                try:
                    os.unlink(os.path.join(proj, ".bob-state.lock"))
                except FileNotFoundError:
                    pass
                if not r.killed and r.rc == 0:
                    # ran to completion (no refresh with that many statements): an ordinary build
                    uptodate = False
                    disturbed[True] = True
                continue
            if op[0] in ("dev", "build"):
                develop = op[0] == "dev"
                cmd = (["dev"] if develop else ["build", "--no-sandbox"]) + ["-j", str(op[1]), "root"]
                r = buildsim.bob(proj, cmd, {"sched_seed": op[2]})
                stats.inc("builds_" + op[0])
                if r.rc != 0:
                    stats.inc("failed_builds")      # project broken by an edit; nothing to assert
                    log.append((n, op[0], r.rc))
                    uptodate = False
                    disturbed[develop] = True
                    continue
                # nothing but edits that were taken back and dry runs since the last successful build
                # of exactly this project state: no result may have been lost
                md = common.digest_of(projgen.files_of(model))
                if last_built.get(develop) == md and not disturbed.get(develop):
                    redone = [s_ for s_ in r.scripts_run() if "/build/" in s_ or "/dist/" in s_]
                    if redone:
                        viol = {"kind": "dry-run-lost-up-to-date-result",
                                "detail": "op %d: the project is in the state that was built last, only edits that were reverted "
                                          "and dry runs happened since, yet %s re-executed" % (n, sorted(redone))}
                        break
                    stats.inc("probe_rebuild_of_built_state_executes_nothing")
                last_built[develop] = md
                disturbed[develop] = False
                try:
                    mapping = bobq.query(proj, develop=develop)
                except bobq.QueryError:
                    continue
                bad, keymap = _check_map(mapping, develop)
                if bad:
                    viol = {"kind": "variants-share-directory", "detail": "after op %d (%s): %s" % (n, op[0], bad)}
                    break
                pm = prev_maps[develop]
                if pm is not None:
                    for k, d in keymap.items():
                        if k in pm and pm[k] != d:
                            viol = {"kind": "variant-changed-directory",
                                    "detail": "after op %d: %s moved from %s to %s" % (n, k, pm[k], d)}
                            break
                    if viol:
                        break
                prev_maps[develop] = keymap
                ws2vid = {}
                for ent in mapping.values():
                    for s in ent["steps"].values():
                        if s.get("valid") and s.get("ws"):
                            ws2vid[s["ws"]] = s["vid"]
                # (c)
                states = {e[2]: e[3] for e in r.events if e[0] == "ws-state"}
                ran = []
                for label, script in buildsim.step_scripts(r):
                    ws = _ws_of_script(script)
                    vid = ws2vid.get(ws)
                    ran.append(script)
                    old = occupant.get(ws)
                    if label in ("build", "dist") and old is not None and vid is not None and old != vid:
                        stats.inc("directory_reused_by_other_variant")
                        entries = states.get(script)
                        if entries:
                            viol = {"kind": "stale-content-in-reused-directory",
                                    "detail": "op %d: %s handed from variant %s to %s still contains %s when its script starts" % (
                                        n, ws, old[:10], vid[:10], entries[:6])}
                            break
                    if vid is not None:
                        occupant[ws] = vid
                if viol:
                    break
                # (e)
                bad_re = [s for s in ran if "/build/" in s or "/dist/" in s]
                if uptodate and last_mode_built == develop and bad_re:
                    viol = {"kind": "clean-lost-up-to-date-result",
                            "detail": "op %d: everything was up to date before the clean, yet %s re-executed" % (n, bad_re)}
                    break
                uptodate = True
                last_mode_built = develop
                log.append((n, op[0], sorted(keymap.values())))
                continue
            # clean
            mode, src, dry = op[1], op[2], op[3]
            develop = mode == "develop"
            if not dry:
                disturbed[develop] = True
            try:
                mapping = bobq.query(proj, develop=develop)
            except bobq.QueryError:
                continue
            ws2vid = {}
            for ent in mapping.values():
                for label, s in ent["steps"].items():
                    if s.get("valid") and s.get("ws"):
                        ws2vid[s["ws"]] = (s["vid"], label)
            before = _all_workspaces(proj)
            argv = ["clean", "--" + mode] + (["-s"] if src else []) + (["--dry-run"] if dry else [])
            r = buildsim.bob(proj, argv, {"sched_seed": 0})
            after = _all_workspaces(proj)
            stats.inc("cleans")
            if r.rc != 0:
                viol = {"kind": "clean-failed", "detail": "%s: %s" % (argv, r.output[-600:])}
                break
            deleted = sorted(w for w in before if w not in after)
            changed = sorted(w for w in before if w in after and before[w] != after[w])
            log.append((n, "clean", mode, src, dry, deleted))
            if dry and (deleted or changed or set(after) - set(before)):
                viol = {"kind": "dry-run-modified-workspace", "detail": "%s deleted=%s changed=%s" % (argv, deleted, changed)}
                break
            if changed:
                viol = {"kind": "clean-modified-kept-directory", "detail": str(changed)}
                break
            if deleted:
                stats.inc("clean_deleted", len(deleted))
            for w in deleted:
                is_src = ("/src/" in "/" + w) if w.startswith("dev/") else (w.split("/")[-3] == "src")
                if is_src and not src:
                    viol = {"kind": "clean-deleted-source", "detail": "%s removed %s without -s" % (argv, w)}
                    break
                cur = ws2vid.get(w)
                if cur is not None and (occupant.get(w) == cur[0] or is_src):
                    viol = {"kind": "clean-deleted-up-to-date-result",
                            "detail": "%s removed %s which holds the result of a current package (variant %s)" % (argv, w, cur[0][:10])}
                    break
                wrong_mode = w.startswith("dev/") != develop
                if wrong_mode:
                    viol = {"kind": "clean-deleted-other-mode-directory", "detail": "%s removed %s" % (argv, w)}
                    break
            if viol:
                break
            for w in deleted:
                occupant.pop(w, None)
            left = [w for w in after if (w.startswith("dev/") == develop) and w not in ws2vid and "/src/" not in "/" + w]
            if left and not dry:
                stats.inc("probe_garbage_left_after_clean", len(left))
    finally:
        common.rmtree(top)
    nontriv = stats.get("directory_reused_by_other_variant", 0) > 0 or stats.get("clean_deleted", 0) > 0
    return {"violation": viol, "digest": common.digest_of(log), "stats": dict(stats), "nontrivial": nontriv,
            "sim_time": float(len(log)),
            "sample": {"features": case["model"].get("features"), "ops": [o[:2] if o[0] == "edit" else o for o in case["ops"]][:12],
                       "log": log[:6]}}
