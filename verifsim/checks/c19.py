"""C19 Archive retention keeps exactly what is selected or referenced.

Model-based history simulation with a stat-clock seam.  An archive directory
and its scan index (.bob-archive.sqlite3) live across a history: artifacts
(real pax/gzip artifacts carrying generated audit trails with random
meta/build/metaEnv fields and dist->dist references) are added, removed behind
Bob's back and replaced, while `bob archive -l scan | find | clean [--dry-run]
[-n]` run in between (real CLI in a forked child).

Reference model (independent of bob.cmds.archive): evaluate every expression
AST over the artifacts *actually present*, order by the sort key (missing key
last), take LIMIT, union, close over references (also through vanished artifacts),
delete the rest.  Ties at the LIMIT boundary: any choice among equal keys is
accepted.

Oracle: `find` prints exactly the directly selected artifacts; after `clean`
the set of artifact files equals the model's kept set; `--dry-run` leaves the
directory unchanged and prints the would-be victims; the same `clean` on a copy
of the archive with the index deleted gives the same result (index warm, stale
or fresh).  `-n` is only issued right after a scan with no change in between.
"""

import gzip
import hashlib
import io
import json
import os
import shutil

from .. import common, loopsim, treegen
from .c14 import artifact_digest

PROPERTY = "C19"
LEVEL = "exploration"
RULE = ("case = artifact DAG (random meta/build.date/metaEnv fields, missing fields, shared references) + history of "
        "add/remove/replace operations and scan/find/clean commands with expression lists generated from the retention "
        "grammar (comparisons, &&, ||, !, LIMIT, ORDER BY ASC/DESC); non-trivial = at least one command ran on an index "
        "that was stale w.r.t. the directory; distinct = digest of (commands, model results)")
COMPONENTS = {"real": ["bob archive scan/find/clean CLI (cmds/archive.py: ArchiveScanner, RetainExpression, query, doArchiveClean)",
                       "archive.LocalArchive (listDir/stat/getAudit/deleteFile), TarHelper._pack/_extractAudit", "audit parsing",
                       "sqlite index on tmpfs"],
              "stub": ["stat clock of artifact files"], "not_exercised": ["http/azure managed archives", "multiple backends (-a/-b)"]}
ASSUMPTIONS = ["every modification of an artifact file changes its stat data (new inode / fresh mtime)"]
SHRINK = ["ops", "arts"]

PKGS = ["app", "lib", "tool", "core"]
FIELDS = ["meta.package", "meta.recipe", "build.date", "metaEnv.LICENSE", "metaEnv.TEAM", "meta.nonexistent", "build.machine"]

def plan(tier):
    if tier == "thorough":
        return {"cases": 6000, "timeout": 400, "wall_budget": 1500, "recheck": 6, "nproc": 6}
    return {"cases": 160, "timeout": 300, "wall_budget": 100, "recheck": 3, "nproc": 6}

# ---------------------------------------------------------------------------
# expression ASTs

def gen_pred(rng, depth=0, dates=None):
    r = rng.random()
    if depth < 2 and r < 0.3:
        return [rng.choice(["&&", "||"]), gen_pred(rng, depth + 1, dates), gen_pred(rng, depth + 1, dates)]
    if depth < 2 and r < 0.4:
        return ["!", gen_pred(rng, depth + 1, dates)]
    f = rng.choice(FIELDS + ["build.date", "build.date"])
    if f in ("build.date",) and rng.random() < 0.8:
        # half of the literals are complete time stamps from the small pool the artifacts draw
        # from, so that the boundary case (field == literal) of <= and >= occurs
        r = rng.random()
        if dates and r < 0.45:
            lit = rng.choice(dates)      # exactly the time stamp of one of the artifacts
        elif r < 0.6:
            lit = "2020-01-%02dT%02d:00:00" % (rng.randrange(1, 10), rng.choice([0, 12]))
        else:
            lit = "2020-01-%02d" % rng.randrange(1, 11)
        return [rng.choice(["<", "<=", ">", ">="]), ["f", f], ["s", lit]]
    if f == "meta.package":
        return [rng.choice(["==", "!=", "==", "<", ">=", "<=", ">"]), ["f", f], ["s", rng.choice(PKGS)]]
    if f == "meta.recipe":
        return [rng.choice(["==", "!="]), ["f", f], ["s", rng.choice(PKGS)]]
    if f.startswith("metaEnv"):
        return [rng.choice(["==", "!="]), ["f", f], ["s", rng.choice(["GPL", "MIT", "a", "b"])]]
    return [rng.choice(["==", "!="]), ["f", f], ["s", rng.choice(["x", "x86_64"])]]

def gen_expr(rng, dates=None):
    e = {"pred": gen_pred(rng, 0, dates)}
    if rng.random() < 0.55:
        e["limit"] = rng.choice([1, 1, 2, 3, 5])
        if rng.random() < 0.6:
            e["order"] = rng.choice(["build.date", "build.date", "meta.package", "metaEnv.TEAM"])
            if rng.random() < 0.6:
                e["dir"] = rng.choice(["ASC", "DESC"])
    return e

def render_pred(p):
    if p[0] == "f":
        return p[1]
    if p[0] == "s":
        return '"%s"' % p[1]
    if p[0] == "!":
        return "!(%s)" % render_pred(p[1])
    return "(%s %s %s)" % (render_pred(p[1]), p[0], render_pred(p[2]))

def render_expr(e):
    s = render_pred(e["pred"])
    if e.get("limit"):
        s += " LIMIT %d" % e["limit"]
        if e.get("order"):
            s += " ORDER BY %s" % e["order"]
            if e.get("dir"):
                s += " " + e["dir"]
    return s

def _field(data, path):
    cur = data
    for k in path.split("."):
        if not isinstance(cur, dict) or k not in cur:
            return None
        cur = cur[k]
    return cur

class ModelError(Exception):
    pass

def eval_pred(p, data):
    if p[0] == "!":
        return not eval_pred(p[1], data)
    if p[0] == "&&":
        return eval_pred(p[1], data) and eval_pred(p[2], data)
    if p[0] == "||":
        return eval_pred(p[1], data) or eval_pred(p[2], data)
    def val(x):
        return _field(data, x[1]) if x[0] == "f" else x[1]
    a, b = val(p[1]), val(p[2])
    if p[0] == "==": return a == b
    if p[0] == "!=": return a != b
    if a is None or b is None:
        raise ModelError("ordering comparison with a missing field")
    return {"<": a < b, "<=": a <= b, ">": a > b, ">=": a >= b}[p[0]]

def model_select(exprs, present):
    """present: {bid: data}.  Returns (mandatory, optional) sets of directly selected bids."""
    mand, opt = set(), set()
    for e in exprs:
        match = [b for b, d in present.items() if eval_pred(e["pred"], d)]
        if not e.get("limit") or len(match) <= e["limit"]:
            mand.update(match)
            continue
        order = e.get("order") or "build.date"
        asc = e.get("dir") == "ASC"
        keyed = [(_field(present[b], order), b) for b in match]
        have = sorted([k for k in keyed if k[0] is not None], key=lambda k: k[0], reverse=not asc)
        none = [k for k in keyed if k[0] is None]
        ranked = have + none        # missing sort field last
        boundary = ranked[e["limit"] - 1][0]
        better = [b for k, b in ranked[:e["limit"]] if k != boundary]
        equal = [b for k, b in ranked if k == boundary]
        if len(better) + len(equal) == e["limit"]:
            mand.update(better + equal)
        else:
            mand.update(better)
            opt.update(equal)
    return mand, opt - mand

# ---------------------------------------------------------------------------
# artifacts

def gen_art(rng, idx, existing):
    pkg = rng.choice(PKGS)
    a = {"id": idx, "package": pkg, "recipe": rng.choice(PKGS) if rng.random() < 0.3 else pkg,
         "date": "2020-01-%02dT%02d:00:00" % (rng.randrange(1, 10), rng.choice([0, 12])),
         "metaEnv": {}, "deps": [], "rev": 0}
    if rng.random() < 0.5:
        a["metaEnv"]["LICENSE"] = rng.choice(["GPL", "MIT"])
    if rng.random() < 0.4:
        a["metaEnv"]["TEAM"] = rng.choice(["a", "b", "c"])
    if rng.random() < 0.15:
        a["no_package"] = True
    if existing:
        a["deps"] = sorted(set(rng.sample(existing, min(len(existing), rng.choice([0, 0, 1, 2])))))
    return a

def bid_of(a):
    return hashlib.sha1(b"art%d" % a["id"]).digest()

def _record(step, pkg, recipe, date, vid, bid, metaEnv, args, no_package=False):
    meta = {"bob": "1.0", "recipe": recipe, "step": step, "language": "bash"}
    if not no_package:
        meta["package"] = pkg
    rec = {"variant-id": vid.hex(), "build-id": bid.hex(), "result-hash": hashlib.sha1(bid + step.encode()).hexdigest(),
           "meta": meta,
           "build": {"sysname": "Linux", "nodename": "n", "release": "r", "version": "v", "machine": "x86_64", "date": date},
           "env": "", "scms": [], "dependencies": ({"args": [a["artifact-id"] for a in args]} if args else {})}
    if metaEnv:
        rec["metaEnv"] = dict(metaEnv)
    rec["artifact-id"] = artifact_digest(rec)
    return rec

def art_records(a, arts):
    """(dist record, complete reference list) for artifact a; dist -> build -> (src, dist of deps)."""
    memo = {}
    def dist_of(x):
        if x["id"] in memo:
            return memo[x["id"]]
        b = bid_of(x)
        dep_d = [dist_of(arts[d]) for d in x["deps"] if d in arts]
        src = _record("src", x["package"], x["recipe"], x["date"], hashlib.sha1(b + b"s").digest(), hashlib.sha1(b + b"srcbid").digest(), {}, [])
        bld = _record("build", x["package"], x["recipe"], x["date"], hashlib.sha1(b + b"b").digest(), hashlib.sha1(b + b"bldbid").digest(), {},
                      [src] + [d[0] for d in dep_d])
        dist = _record("dist", x["package"], x["recipe"], x["date"] if not x.get("rev") else x["date"][:-1] + str(x["rev"] % 10),
                       hashlib.sha1(b + b"d").digest(), b, x["metaEnv"], [bld], x.get("no_package", False))
        refs = {src["artifact-id"]: src, bld["artifact-id"]: bld}
        for d, r in dep_d:
            refs[d["artifact-id"]] = d
            refs.update(r)
        memo[x["id"]] = (dist, refs)
        return memo[x["id"]]
    return dist_of(a)

def data_of(a, arts):
    dist, _ = art_records(a, arts)
    d = {"meta": dist["meta"], "build": dist["build"], "metaEnv": dist.get("metaEnv", {})}
    return d

def write_artifact(arch, a, arts, clock, tmp):
    from bob.archive import LocalArchive
    dist, refs = art_records(a, arts)
    tree = {"artifact": dist, "references": list(refs.values())}
    os.makedirs(tmp, exist_ok=True)
    ap = os.path.join(tmp, "audit.json.gz")
    with gzip.GzipFile(ap, "wb", mtime=0) as f:
        f.write(json.dumps(tree).encode())
    content = os.path.join(tmp, "content")
    common.rmtree(content)
    os.makedirs(content)
    common.write_file(os.path.join(content, "f"), "artifact %d rev %d\n" % (a["id"], a.get("rev", 0)))
    ar = LocalArchive({"backend": "file", "path": arch})
    ar.wantUploadLocal(True)
    p = art_path(arch, a)
    if os.path.exists(p):
        os.unlink(p)
    ar._uploadPackage(bid_of(a), ".tgz", ap, content)
    t = clock.tick()
    os.utime(p, ns=(t, t))

def art_path(arch, a):
    h = bid_of(a).hex() + "-1"
    return os.path.join(arch, h[0:2], h[2:4], h[4:] + ".tgz")

def rel_of(a):
    h = bid_of(a).hex() + "-1"
    return os.path.join(h[0:2], h[2:4], h[4:] + ".tgz")

def gen_case(rng, tier, index):
    n = rng.choice([3, 5, 8, 12])
    arts = []
    for i in range(n):
        arts.append(gen_art(rng, i, [a["id"] for a in arts]))
    dates = sorted({a["date"] for a in arts})
    ops = []
    present = set()
    scanned_clean = False
    for i in range(min(n, rng.choice([2, 3, 5, 8]))):
        ops.append(["add", i]); present.add(i)
    nxt = len(present)
    for _ in range(rng.choice([3, 5, 8, 12])):
        r = rng.random()
        if r < 0.15 and nxt < n:
            ops.append(["add", nxt]); present.add(nxt); nxt += 1; scanned_clean = False
        elif r < 0.3 and present:
            v = rng.choice(sorted(present)); ops.append(["remove", v]); present.discard(v); scanned_clean = False
        elif r < 0.38 and present:
            ops.append(["replace", rng.choice(sorted(present)), rng.random() < 0.5]); scanned_clean = False
        elif r < 0.5:
            ops.append(["scan"]); scanned_clean = True
        elif r < 0.72:
            ops.append(["find", [gen_expr(rng, dates) for _ in range(rng.choice([1, 1, 2]))], bool(scanned_clean and rng.random() < 0.5)])
            scanned_clean = True        # every command without -n scans first
        else:
            dry = rng.random() < 0.3
            ops.append(["clean", [gen_expr(rng, dates) for _ in range(rng.choice([1, 1, 2, 3]))], dry, bool(scanned_clean and rng.random() < 0.4)])
            if not dry:
                scanned_clean = False
            else:
                # a dry run must leave the index as it is: the next command may rely on it (-n)
                scanned_clean = True
                if rng.random() < 0.6:
                    ops.append(["find", [gen_expr(rng, dates) for _ in range(rng.choice([1, 2]))], True])
                    if rng.random() < 0.5:
                        ops.append(["clean", [gen_expr(rng, dates)], False, True])
                        scanned_clean = False
    return {"arts": arts, "ops": ops}

def directed_cases(tier):
    # newest artifact vanished behind Bob's back; LIMIT 1 must keep the newest *present* one
    arts = [{"id": 0, "package": "app", "recipe": "app", "date": "2020-01-02T00:00:00", "metaEnv": {}, "deps": [], "rev": 0},
            {"id": 1, "package": "app", "recipe": "app", "date": "2020-01-09T00:00:00", "metaEnv": {}, "deps": [], "rev": 0}]
    e = {"pred": ["==", ["f", "meta.package"], ["s", "app"]], "limit": 1}
    return [{"arts": arts, "ops": [["add", 0], ["add", 1], ["scan"], ["remove", 1], ["find", [e], False], ["clean", [e], False, False]],
             "directed": "ghost row after artifact vanished"},
            # artifact replaced by one that no longer references its former dependency
            {"arts": [dict(arts[0], package="lib", recipe="lib"), dict(arts[1], deps=[0])],
             "ops": [["add", 0], ["add", 1], ["scan"], ["replace", 1, True], ["clean", [e], False, False]],
             "directed": "stale references after artifact was replaced"}]

# ---------------------------------------------------------------------------

def _listing(arch):
    out = set()
    for root, dirs, files in os.walk(arch):
        for f in files:
            if f.endswith(".tgz"):
                out.add(os.path.relpath(os.path.join(root, f), arch))
    return out

def _closure(sel, present, arts):
    """Everything transitively referenced by a selected artifact -- also through artifacts
    that are not in the archive (any more): a trail lists its complete reference closure."""
    seen = set(sel)
    todo = list(sel)
    while todo:
        b = todo.pop()
        for d in arts[b]["deps"]:
            if d not in seen:
                seen.add(d)
                todo.append(d)
    return set(sel) | {d for d in seen if d in present}

def run_case(case):
    top = common.scratch_dir("c19-%d" % os.getpid())
    stats = common.Counter()
    log = []
    viol = None
    stale_used = False
    try:
        arch = os.path.join(top, "archive")
        os.makedirs(arch)
        clock = treegen.SimClock()
        arts = {a["id"]: dict(a) for a in case["arts"]}
        present = set()
        indexed = None      # set of ids the index knows, or None if never scanned
        for n, op in enumerate(case["ops"]):
            k = op[0]
            if k in ("add", "replace"):
                if op[1] not in arts:
                    continue
                if k == "replace":
                    if op[1] not in present:
                        continue
                    arts[op[1]]["rev"] = arts[op[1]].get("rev", 0) + 1
                    arts[op[1]]["metaEnv"] = dict(arts[op[1]]["metaEnv"], TEAM="z")
                    if len(op) > 2 and op[2]:
                        # the rebuilt artifact no longer references its former dependencies
                        arts[op[1]]["deps"] = arts[op[1]]["deps"][1:]
                write_artifact(arch, arts[op[1]], arts, clock, os.path.join(top, "tmp"))
                present.add(op[1])
                stats.inc("op_" + k)
                continue
            if k == "remove":
                if op[1] in present:
                    os.unlink(art_path(arch, arts[op[1]]))
                    present.discard(op[1])
                    stats.inc("op_remove")
                continue
            rel2id = {rel_of(arts[i]): i for i in arts}
            pres_data = {i: data_of(arts[i], arts) for i in present}
            if indexed is not None and indexed != present:
                stale_used = True
                stats.inc("commands_on_stale_index")
            if k == "scan":
                r = loopsim.run_bob(["archive", "-l", "scan"], arch, {}, workdir=top)
                if r.rc != 0:
                    viol = {"kind": "scan-failed", "detail": r.output[-500:]}
                    break
                indexed = set(present)
                log.append((n, "scan"))
                continue
            exprs = op[1]
            try:
                mand, opt = model_select(exprs, pres_data)
            except ModelError:
                stats.inc("expressions_with_invalid_ordering_skipped")
                # the command is not issued; later commands may rely on the scan it would have done
                if not (op[2] if k == "find" else op[3]):
                    r = loopsim.run_bob(["archive", "-l", "scan"], arch, {}, workdir=top)
                    if r.rc == 0:
                        indexed = set(present)
                continue
            argv_e = [render_expr(e) for e in exprs]
            if k == "find":
                argv = ["archive", "-l", "find"] + (["-n"] if op[2] else []) + argv_e
                r = loopsim.run_bob(argv, arch, {}, workdir=top)
                stats.inc("cmd_find")
                if r.rc != 0:
                    viol = {"kind": "find-failed", "detail": "%s: %s" % (argv_e, r.output[-500:])}
                    break
                got_rel = {l.strip() for l in r.output.splitlines() if l.startswith("\t")}
                got = {rel2id.get(x, x) for x in got_rel}
                if not op[2]:
                    indexed = set(present)
                log.append((n, "find", sorted(map(str, got))))
                if not (mand <= got <= (mand | opt)):
                    viol = {"kind": "find-wrong",
                            "detail": "find %s listed %s, the artifacts actually present select %s (+ optional ties %s); present=%s" % (
                                argv_e, sorted(map(str, got)), sorted(mand), sorted(opt), sorted(present))}
                    break
                continue
            # clean
            dry, noscan = op[2], op[3]
            argv = ["archive", "-l", "clean"] + (["--dry-run"] if dry else []) + (["-n"] if noscan else []) + argv_e
            before = _listing(arch)
            # same command on a copy with a fresh index
            fresh = None
            if not dry:
                fresh = os.path.join(top, "fresh")
                common.rmtree(fresh)
                shutil.copytree(arch, fresh)
                try:
                    os.unlink(os.path.join(fresh, ".bob-archive.sqlite3"))
                except FileNotFoundError:
                    pass
            r = loopsim.run_bob(argv, arch, {}, workdir=top)
            stats.inc("cmd_clean_dry" if dry else "cmd_clean")
            if r.rc != 0:
                viol = {"kind": "clean-failed", "detail": "%s: %s" % (argv_e, r.output[-500:])}
                break
            after = _listing(arch)
            kept_min = _closure(mand, present, arts)
            kept_max = _closure(mand | opt, present, arts)
            if dry:
                victims = {rel2id.get(l.strip(), l.strip()) for l in r.output.splitlines() if l.strip().endswith(".tgz")}
                log.append((n, "clean-dry", sorted(map(str, victims))))
                if after != before:
                    viol = {"kind": "dry-run-deleted", "detail": "%s removed %s" % (argv_e, sorted(before - after))}
                    break
                would_keep = present - {v for v in victims if isinstance(v, int)}
                if not (kept_min <= would_keep <= kept_max) or any(not isinstance(v, int) for v in victims):
                    viol = {"kind": "dry-run-wrong-victims",
                            "detail": "clean --dry-run %s would delete %s; model keeps %s..%s of present %s" % (
                                argv_e, sorted(map(str, victims)), sorted(kept_min), sorted(kept_max), sorted(present))}
                    break
                if not noscan:
                    indexed = set(present)
                continue
            kept = {rel2id[x] for x in after if x in rel2id}
            log.append((n, "clean", sorted(kept)))
            if not (kept_min <= kept <= kept_max):
                viol = {"kind": "clean-wrong",
                        "detail": "clean %s kept %s of present %s; model keeps %s (optional ties up to %s); index knew %s" % (
                            argv_e, sorted(kept), sorted(present), sorted(kept_min), sorted(kept_max),
                            sorted(indexed) if indexed is not None else None)}
                break
            if len(opt) == 0:
                rf = loopsim.run_bob([a for a in argv if a != "-n"], fresh, {}, workdir=top)
                kept_fresh = {rel2id[x] for x in _listing(fresh) if x in rel2id}
                if rf.rc != 0 or kept_fresh != kept:
                    viol = {"kind": "result-depends-on-index-state",
                            "detail": "clean %s kept %s with the existing index but %s with a fresh one" % (argv_e, sorted(kept), sorted(kept_fresh))}
                    break
                stats.inc("fresh_index_comparisons")
            present = set(kept)
            indexed = set(present)
            if before - after:
                stats.inc("artifacts_deleted", len(before - after))
    finally:
        common.rmtree(top)
    return {"violation": viol, "digest": common.digest_of(log), "stats": dict(stats), "nontrivial": stale_used,
            "sim_time": float(len(log)),
            "sample": {"n_arts": len(case["arts"]), "directed": case.get("directed"),
                       "ops": [[o[0]] + ([[render_expr(e) for e in o[1]]] + o[2:] if o[0] in ("find", "clean") else o[1:]) for o in case["ops"]][:12],
                       "log": log[:8]}}
