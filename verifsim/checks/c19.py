"""C19 Archive retention keeps exactly what is selected or referenced.

Model-based history simulation with a stat-clock seam.  An archive directory
and its scan index (.bob-archive.sqlite3) live across a history: artifacts
(real pax/gzip artifacts carrying generated audit trails with random
meta/build/metaEnv fields and dist->dist references) are added, removed behind
Bob's back and replaced, while `bob archive -l scan | find | clean [--dry-run]
[-n]` run in between (real CLI in a forked child).

Reference model (independent of bob.cmds.archive): evaluate every expression
AST over the artifacts *actually present*, order by the sort key (missing key
last), take LIMIT, union, close over references (also through vanished artifacts),
delete the rest.  Ties at the LIMIT boundary: any choice among equal keys is
accepted.

Oracle: `find` prints exactly the directly selected artifacts; after `clean`
the set of artifact files equals the model's kept set; `--dry-run` leaves the
directory unchanged and prints the would-be victims; the same `clean` on a copy
of the archive with the index deleted gives the same result (index warm, stale
or fresh).  `-n` is only issued right after a scan with no change in between.
"""

import gzip
import hashlib
import io
import json
import os
import shutil

from .. import common, loopsim, treegen
from .c14 import artifact_digest

PROPERTY = "C19"
LEVEL = "exploration"
RULE = ("case = artifact DAG (random meta/build.date/metaEnv fields, missing fields, shared references) + history of "
        "add/remove/replace operations and scan/find/clean commands with expression lists generated from the retention "
        "grammar (comparisons, &&, ||, !, LIMIT, ORDER BY ASC/DESC); non-trivial = at least one command ran on an index "
        "that was stale w.r.t. the directory; every fourth case drives two configured archives (-a / -b) that share one scan "
        "index and hold the same Build-Ids with differing audit data; distinct = digest of (commands, model results)")
COMPONENTS = {"real": ["bob archive scan/find/clean CLI (cmds/archive.py: ArchiveScanner, RetainExpression, query, doArchiveClean)",
                       "archive.LocalArchive (listDir/stat/getAudit/deleteFile), TarHelper._pack/_extractAudit", "audit parsing",
                       "sqlite index on tmpfs"],
              "stub": ["stat clock of artifact files"], "not_exercised": ["http/azure managed archives"]}
ASSUMPTIONS = ["every modification of an artifact file changes its stat data (new inode / fresh mtime)"]
SHRINK = ["ops", "arts"]

PKGS = ["app", "lib", "tool", "core"]
FIELDS = ["meta.package", "meta.recipe", "build.date", "metaEnv.LICENSE", "metaEnv.TEAM", "meta.nonexistent", "build.machine"]

def plan(tier):
    if tier == "thorough":
        return {"cases": 6000, "timeout": 400, "wall_budget": 1500, "recheck": 6, "nproc": 6}
    return {"cases": 160, "timeout": 300, "wall_budget": 100, "recheck": 3, "nproc": 6}

# ---------------------------------------------------------------------------
# expression ASTs

def gen_pred(rng, depth=0, dates=None):
    r = rng.random()
    if depth < 2 and r < 0.3:
        return [rng.choice(["&&", "||"]), gen_pred(rng, depth + 1, dates), gen_pred(rng, depth + 1, dates)]
    if depth < 2 and r < 0.4:
        return ["!", gen_pred(rng, depth + 1, dates)]
    f = rng.choice(FIELDS + ["build.date", "build.date"])
    if f in ("build.date",) and rng.random() < 0.8:
        # half of the literals are complete time stamps from the small pool the artifacts draw
        # from, so that the boundary case (field == literal) of <= and >= occurs
        r = rng.random()
        if dates and r < 0.45:
            lit = rng.choice(dates)      # exactly the time stamp of one of the artifacts
        elif r < 0.6:
            lit = "2020-01-%02dT%02d:00:00" % (rng.randrange(1, 10), rng.choice([0, 12]))
        else:
            lit = "2020-01-%02d" % rng.randrange(1, 11)
        return [rng.choice(["<", "<=", ">", ">="]), ["f", f], ["s", lit]]
    if f == "meta.package":
        return [rng.choice(["==", "!=", "==", "<", ">=", "<=", ">"]), ["f", f], ["s", rng.choice(PKGS)]]
    if f == "meta.recipe":
        return [rng.choice(["==", "!="]), ["f", f], ["s", rng.choice(PKGS)]]
    if f.startswith("metaEnv"):
        return [rng.choice(["==", "!="]), ["f", f], ["s", rng.choice(["GPL", "MIT", "a", "b"])]]
    return [rng.choice(["==", "!="]), ["f", f], ["s", rng.choice(["x", "x86_64"])]]

def gen_expr(rng, dates=None):
    e = {"pred": gen_pred(rng, 0, dates)}
    if rng.random() < 0.55:
        e["limit"] = rng.choice([1, 1, 2, 3, 5])
        if rng.random() < 0.6:
            e["order"] = rng.choice(["build.date", "build.date", "meta.package", "metaEnv.TEAM"])
            if rng.random() < 0.6:
                e["dir"] = rng.choice(["ASC", "DESC"])
    return e

def render_pred(p):
    if p[0] == "f":
        return p[1]
    if p[0] == "s":
        return '"%s"' % p[1]
    if p[0] == "!":
        return "!(%s)" % render_pred(p[1])
    return "(%s %s %s)" % (render_pred(p[1]), p[0], render_pred(p[2]))

def render_expr(e):
    s = render_pred(e["pred"])
    if e.get("limit"):
        s += " LIMIT %d" % e["limit"]
        if e.get("order"):
            s += " ORDER BY %s" % e["order"]
            if e.get("dir"):
                s += " " + e["dir"]
    return s

def _field(data, path):
    cur = data
    for k in path.split("."):
        if not isinstance(cur, dict) or k not in cur:
            return None
        cur = cur[k]
    return cur

class ModelError(Exception):
    pass

def eval_pred(p, data):
    if p[0] == "!":
        return not eval_pred(p[1], data)
    if p[0] == "&&":
        return eval_pred(p[1], data) and eval_pred(p[2], data)
    if p[0] == "||":
        return eval_pred(p[1], data) or eval_pred(p[2], data)
    def val(x):
        return _field(data, x[1]) if x[0] == "f" else x[1]
    a, b = val(p[1]), val(p[2])
    if p[0] == "==": return a == b
    if p[0] == "!=": return a != b
    if a is None or b is None:
        raise ModelError("ordering comparison with a missing field")
    return {"<": a < b, "<=": a <= b, ">": a > b, ">=": a >= b}[p[0]]

def model_select(exprs, present):
    """present: {bid: data}.  Returns (mandatory, optional) sets of directly selected bids."""
    mand, opt = set(), set()
    for e in exprs:
        match = [b for b, d in present.items() if eval_pred(e["pred"], d)]
        if not e.get("limit") or len(match) <= e["limit"]:
            mand.update(match)
            continue
        order = e.get("order") or "build.date"
        asc = e.get("dir") == "ASC"
        keyed = [(_field(present[b], order), b) for b in match]
        have = sorted([k for k in keyed if k[0] is not None], key=lambda k: k[0], reverse=not asc)
        none = [k for k in keyed if k[0] is None]
        ranked = have + none        # missing sort field last
        boundary = ranked[e["limit"] - 1][0]
        better = [b for k, b in ranked[:e["limit"]] if k != boundary]
        equal = [b for k, b in ranked if k == boundary]
        if len(better) + len(equal) == e["limit"]:
            mand.update(better + equal)
        else:
            mand.update(better)
            opt.update(equal)
    return mand, opt - mand

# ---------------------------------------------------------------------------
# artifacts

def gen_art(rng, idx, existing):
    pkg = rng.choice(PKGS)
    a = {"id": idx, "package": pkg, "recipe": rng.choice(PKGS) if rng.random() < 0.3 else pkg,
         "date": "2020-01-%02dT%02d:00:00" % (rng.randrange(1, 10), rng.choice([0, 12])),
         "metaEnv": {}, "deps": [], "rev": 0}
    if rng.random() < 0.5:
        a["metaEnv"]["LICENSE"] = rng.choice(["GPL", "MIT"])
    if rng.random() < 0.4:
        a["metaEnv"]["TEAM"] = rng.choice(["a", "b", "c"])
    if rng.random() < 0.15:
        a["no_package"] = True
    if existing:
        a["deps"] = sorted(set(rng.sample(existing, min(len(existing), rng.choice([0, 0, 1, 2])))))
    return a

def bid_of(a):
    return hashlib.sha1(b"art%d" % a["id"]).digest()

def _record(step, pkg, recipe, date, vid, bid, metaEnv, args, no_package=False):
    meta = {"bob": "1.0", "recipe": recipe, "step": step, "language": "bash"}
    if not no_package:
        meta["package"] = pkg
    rec = {"variant-id": vid.hex(), "build-id": bid.hex(), "result-hash": hashlib.sha1(bid + step.encode()).hexdigest(),
           "meta": meta,
           "build": {"sysname": "Linux", "nodename": "n", "release": "r", "version": "v", "machine": "x86_64", "date": date},
           "env": "", "scms": [], "dependencies": ({"args": [a["artifact-id"] for a in args]} if args else {})}
    if metaEnv:
        rec["metaEnv"] = dict(metaEnv)
    rec["artifact-id"] = artifact_digest(rec)
    return rec

def art_records(a, arts):
    """(dist record, complete reference list) for artifact a; dist -> build -> (src, dist of deps)."""
    memo = {}
    def dist_of(x):
        if x["id"] in memo:
            return memo[x["id"]]
        b = bid_of(x)
        dep_d = [dist_of(arts[d]) for d in x["deps"] if d in arts]
        src = _record("src", x["package"], x["recipe"], x["date"], hashlib.sha1(b + b"s").digest(), hashlib.sha1(b + b"srcbid").digest(), {}, [])
        bld = _record("build", x["package"], x["recipe"], x["date"], hashlib.sha1(b + b"b").digest(), hashlib.sha1(b + b"bldbid").digest(), {},
                      [src] + [d[0] for d in dep_d])
        dist = _record("dist", x["package"], x["recipe"], x["date"] if not x.get("rev") else x["date"][:-1] + str(x["rev"] % 10),
                       hashlib.sha1(b + b"d").digest(), b, x["metaEnv"], [bld], x.get("no_package", False))
        refs = {src["artifact-id"]: src, bld["artifact-id"]: bld}
        for d, r in dep_d:
            refs[d["artifact-id"]] = d
            refs.update(r)
        memo[x["id"]] = (dist, refs)
        return memo[x["id"]]
    return dist_of(a)

def data_of(a, arts):
    dist, _ = art_records(a, arts)
    d = {"meta": dist["meta"], "build": dist["build"], "metaEnv": dist.get("metaEnv", {})}
    return d

def write_artifact(arch, a, arts, clock, tmp):
    from bob.archive import LocalArchive
    dist, refs = art_records(a, arts)
    tree = {"artifact": dist, "references": list(refs.values())}
    os.makedirs(tmp, exist_ok=True)
    ap = os.path.join(tmp, "audit.json.gz")
    with gzip.GzipFile(ap, "wb", mtime=0) as f:
        f.write(json.dumps(tree).encode())
    content = os.path.join(tmp, "content")
    common.rmtree(content)
    os.makedirs(content)
    common.write_file(os.path.join(content, "f"), "artifact %d rev %d\n" % (a["id"], a.get("rev", 0)))
    ar = LocalArchive({"backend": "file", "path": arch})
    ar.wantUploadLocal(True)
    p = art_path(arch, a)
    if os.path.exists(p):
        os.unlink(p)
    ar._uploadPackage(bid_of(a), ".tgz", ap, content)
    t = clock.tick()
    os.utime(p, ns=(t, t))

def art_path(arch, a):
    h = bid_of(a).hex() + "-1"
    return os.path.join(arch, h[0:2], h[2:4], h[4:] + ".tgz")

def rel_of(a):
    h = bid_of(a).hex() + "-1"
    return os.path.join(h[0:2], h[2:4], h[4:] + ".tgz")

def gen_case(rng, tier, index):
    if index % 4 == 3:
        return gen_case_multi(rng)
    n = rng.choice([3, 5, 8, 12])
    arts = []
    for i in range(n):
        arts.append(gen_art(rng, i, [a["id"] for a in arts]))
    dates = sorted({a["date"] for a in arts})
    ops = []
    present = set()
    scanned_clean = False
    for i in range(min(n, rng.choice([2, 3, 5, 8]))):
        ops.append(["add", i]); present.add(i)
    nxt = len(present)
    for _ in range(rng.choice([3, 5, 8, 12])):
        r = rng.random()
        if r < 0.15 and nxt < n:
            ops.append(["add", nxt]); present.add(nxt); nxt += 1; scanned_clean = False
        elif r < 0.3 and present:
            v = rng.choice(sorted(present)); ops.append(["remove", v]); present.discard(v); scanned_clean = False
        elif r < 0.38 and present:
            ops.append(["replace", rng.choice(sorted(present)), rng.random() < 0.5]); scanned_clean = False
        elif r < 0.5:
            ops.append(["scan"]); scanned_clean = True
        elif r < 0.72:
            ops.append(["find", [gen_expr(rng, dates) for _ in range(rng.choice([1, 1, 2]))], bool(scanned_clean and rng.random() < 0.5)])
            scanned_clean = True        # every command without -n scans first
        else:
            dry = rng.random() < 0.3
            ops.append(["clean", [gen_expr(rng, dates) for _ in range(rng.choice([1, 1, 2, 3]))], dry, bool(scanned_clean and rng.random() < 0.4)])
            if not dry:
                scanned_clean = False
            else:
                # a dry run must leave the index as it is: the next command may rely on it (-n)
                scanned_clean = True
                if rng.random() < 0.6:
                    ops.append(["find", [gen_expr(rng, dates) for _ in range(rng.choice([1, 2]))], True])
                    if rng.random() < 0.5:
                        ops.append(["clean", [gen_expr(rng, dates)], False, True])
                        scanned_clean = False
    return {"arts": arts, "ops": ops}

def directed_cases(tier):
    # newest artifact vanished behind Bob's back; LIMIT 1 must keep the newest *present* one
    arts = [{"id": 0, "package": "app", "recipe": "app", "date": "2020-01-02T00:00:00", "metaEnv": {}, "deps": [], "rev": 0},
            {"id": 1, "package": "app", "recipe": "app", "date": "2020-01-09T00:00:00", "metaEnv": {}, "deps": [], "rev": 0}]
    e = {"pred": ["==", ["f", "meta.package"], ["s", "app"]], "limit": 1}
    return [{"arts": arts, "ops": [["add", 0], ["add", 1], ["scan"], ["remove", 1], ["find", [e], False], ["clean", [e], False, False]],
             "directed": "ghost row after artifact vanished"},
            # artifact replaced by one that no longer references its former dependency
            {"arts": [dict(arts[0], package="lib", recipe="lib"), dict(arts[1], deps=[0])],
             "ops": [["add", 0], ["add", 1], ["scan"], ["replace", 1, True], ["clean", [e], False, False]],
             "directed": "stale references after artifact was replaced"}]

# ---------------------------------------------------------------------------

def _listing(arch):
    out = set()
    for root, dirs, files in os.walk(arch):
        for f in files:
            if f.endswith(".tgz"):
                out.add(os.path.relpath(os.path.join(root, f), arch))
    return out

def _closure(sel, present, arts):
    """Everything transitively referenced by a selected artifact -- also through artifacts
    that are not in the archive (any more): a trail lists its complete reference closure."""
    seen = set(sel)
    todo = list(sel)
    while todo:
        b = todo.pop()
        for d in arts[b]["deps"]:
            if d not in seen:
                seen.add(d)
                todo.append(d)
    return set(sel) | {d for d in seen if d in present}

def run_case(case):
    if case.get("multi"):
        return run_case_multi(case)
    top = common.scratch_dir("c19-%d" % os.getpid())
    stats = common.Counter()
    log = []
    viol = None
    stale_used = False
    try:
        arch = os.path.join(top, "archive")
        os.makedirs(arch)
        clock = treegen.SimClock()
        arts = {a["id"]: dict(a) for a in case["arts"]}
        present = set()
        indexed = None      # set of ids the index knows, or None if never scanned
        for n, op in enumerate(case["ops"]):
            k = op[0]
            if k in ("add", "replace"):
                if op[1] not in arts:
                    continue
                if k == "replace":
                    if op[1] not in present:
                        continue
                    arts[op[1]]["rev"] = arts[op[1]].get("rev", 0) + 1
                    arts[op[1]]["metaEnv"] = dict(arts[op[1]]["metaEnv"], TEAM="z")
                    if len(op) > 2 and op[2]:
                        # the rebuilt artifact no longer references its former dependencies
                        arts[op[1]]["deps"] = arts[op[1]]["deps"][1:]
                write_artifact(arch, arts[op[1]], arts, clock, os.path.join(top, "tmp"))
                present.add(op[1])
                stats.inc("op_" + k)
                continue
            if k == "remove":
                if op[1] in present:
                    os.unlink(art_path(arch, arts[op[1]]))
                    present.discard(op[1])
                    stats.inc("op_remove")
                continue
            rel2id = {rel_of(arts[i]): i for i in arts}
            pres_data = {i: data_of(arts[i], arts) for i in present}
            if indexed is not None and indexed != present:
                stale_used = True
                stats.inc("commands_on_stale_index")
            if k == "scan":
                r = loopsim.run_bob(["archive", "-l", "scan"], arch, {}, workdir=top)
                if r.rc != 0:
                    viol = {"kind": "scan-failed", "detail": r.output[-500:]}
                    break
                indexed = set(present)
                log.append((n, "scan"))
                continue
            exprs = op[1]
            try:
                mand, opt = model_select(exprs, pres_data)
            except ModelError:
                stats.inc("expressions_with_invalid_ordering_skipped")
                # the command is not issued; later commands may rely on the scan it would have done
                if not (op[2] if k == "find" else op[3]):
                    r = loopsim.run_bob(["archive", "-l", "scan"], arch, {}, workdir=top)
                    if r.rc == 0:
                        indexed = set(present)
                continue
            argv_e = [render_expr(e) for e in exprs]
            if k == "find":
                argv = ["archive", "-l", "find"] + (["-n"] if op[2] else []) + argv_e
                r = loopsim.run_bob(argv, arch, {}, workdir=top)
                stats.inc("cmd_find")
                if r.rc != 0:
                    viol = {"kind": "find-failed", "detail": "%s: %s" % (argv_e, r.output[-500:])}
                    break
                got_rel = {l.strip() for l in r.output.splitlines() if l.startswith("\t")}
                got = {rel2id.get(x, x) for x in got_rel}
                if not op[2]:
                    indexed = set(present)
                log.append((n, "find", sorted(map(str, got))))
                if not (mand <= got <= (mand | opt)):
                    viol = {"kind": "find-wrong",
                            "detail": "find %s listed %s, the artifacts actually present select %s (+ optional ties %s); present=%s" % (
                                argv_e, sorted(map(str, got)), sorted(mand), sorted(opt), sorted(present))}
                    break
                continue
            # clean
            dry, noscan = op[2], op[3]
            argv = ["archive", "-l", "clean"] + (["--dry-run"] if dry else []) + (["-n"] if noscan else []) + argv_e
            before = _listing(arch)
            # same command on a copy with a fresh index
            fresh = None
            if not dry:
                fresh = os.path.join(top, "fresh")
                common.rmtree(fresh)
                shutil.copytree(arch, fresh)
                try:
                    os.unlink(os.path.join(fresh, ".bob-archive.sqlite3"))
                except FileNotFoundError:
                    pass
            r = loopsim.run_bob(argv, arch, {}, workdir=top)
            stats.inc("cmd_clean_dry" if dry else "cmd_clean")
            if r.rc != 0:
                viol = {"kind": "clean-failed", "detail": "%s: %s" % (argv_e, r.output[-500:])}
                break
            after = _listing(arch)
            kept_min = _closure(mand, present, arts)
            kept_max = _closure(mand | opt, present, arts)
            if dry:
                victims = {rel2id.get(l.strip(), l.strip()) for l in r.output.splitlines() if l.strip().endswith(".tgz")}
                log.append((n, "clean-dry", sorted(map(str, victims))))
                if after != before:
                    viol = {"kind": "dry-run-deleted", "detail": "%s removed %s" % (argv_e, sorted(before - after))}
                    break
                would_keep = present - {v for v in victims if isinstance(v, int)}
                if not (kept_min <= would_keep <= kept_max) or any(not isinstance(v, int) for v in victims):
                    viol = {"kind": "dry-run-wrong-victims",
                            "detail": "clean --dry-run %s would delete %s; model keeps %s..%s of present %s" % (
                                argv_e, sorted(map(str, victims)), sorted(kept_min), sorted(kept_max), sorted(present))}
                    break
                if not noscan:
                    indexed = set(present)
                continue
            kept = {rel2id[x] for x in after if x in rel2id}
            log.append((n, "clean", sorted(kept)))
            if not (kept_min <= kept <= kept_max):
                viol = {"kind": "clean-wrong",
                        "detail": "clean %s kept %s of present %s; model keeps %s (optional ties up to %s); index knew %s" % (
                            argv_e, sorted(kept), sorted(present), sorted(kept_min), sorted(kept_max),
                            sorted(indexed) if indexed is not None else None)}
                break
            if len(opt) == 0:
                rf = loopsim.run_bob([a for a in argv if a != "-n"], fresh, {}, workdir=top)
                kept_fresh = {rel2id[x] for x in _listing(fresh) if x in rel2id}
                if rf.rc != 0 or kept_fresh != kept:
                    viol = {"kind": "result-depends-on-index-state",
                            "detail": "clean %s kept %s with the existing index but %s with a fresh one" % (argv_e, sorted(kept), sorted(kept_fresh))}
                    break
                stats.inc("fresh_index_comparisons")
            present = set(kept)
            indexed = set(present)
            if before - after:
                stats.inc("artifacts_deleted", len(before - after))
    finally:
        common.rmtree(top)
    return {"violation": viol, "digest": common.digest_of(log), "stats": dict(stats), "nontrivial": stale_used,
            "sim_time": float(len(log)),
            "sample": {"n_arts": len(case["arts"]), "directed": case.get("directed"),
                       "ops": [[o[0]] + ([[render_expr(e) for e in o[1]]] + o[2:] if o[0] in ("find", "clean") else o[1:]) for o in case["ops"]][:12],
                       "log": log[:8]}}

# ---------------------------------------------------------------------------
# several configured archives sharing one scan index (bob archive -a / -b name)

ARCHS = ["a", "b"]

def _gen_sel(rng):
    r = rng.random()
    if r < 0.3:
        return ["all"]
    if r < 0.5:
        return ["a", "b"] if rng.random() < 0.5 else ["b", "a"]
    return [rng.choice(ARCHS)]

def _sel_names(sel):
    return list(ARCHS) if sel == ["all"] else list(sel)

def gen_case_multi(rng):
    n = rng.choice([3, 5, 8])
    arts = []
    for i in range(n):
        arts.append(gen_art(rng, i, [a["id"] for a in arts]))
    dates = sorted({a["date"] for a in arts} | {"2020-01-%02dT12:00:00" % d for d in (2, 5, 8)})
    def variant():
        # the copy of this Build-Id in the other archive was built independently: other audit data
        if rng.random() < 0.3:
            return None
        v = {"date": rng.choice(dates)}
        if rng.random() < 0.6:
            v["metaEnv"] = rng.choice([{}, {"LICENSE": "GPL"}, {"LICENSE": "MIT", "TEAM": "b"}, {"TEAM": "a"}])
        if rng.random() < 0.3:
            v["package"] = rng.choice(PKGS)
        return v
    ops = []
    present = {w: set() for w in ARCHS}
    scanned = {w: False for w in ARCHS}
    for i in range(min(n, rng.choice([2, 3, 5]))):
        first = rng.choice(ARCHS)
        ops.append(["add", i, first, None]); present[first].add(i)
        if rng.random() < 0.75:
            other = "b" if first == "a" else "a"
            ops.append(["add", i, other, variant()]); present[other].add(i)
    nxt = max([len(present["a"] | present["b"])], default=0)
    for _ in range(rng.choice([3, 5, 8, 12])):
        r = rng.random()
        w = rng.choice(ARCHS)
        if r < 0.15 and nxt < n:
            ops.append(["add", nxt, w, None]); present[w].add(nxt); scanned[w] = False
            if rng.random() < 0.6:
                o = "b" if w == "a" else "a"
                ops.append(["add", nxt, o, variant()]); present[o].add(nxt); scanned[o] = False
            nxt += 1
        elif r < 0.3 and present[w]:
            v = rng.choice(sorted(present[w])); ops.append(["remove", v, w]); present[w].discard(v); scanned[w] = False
        elif r < 0.38 and present[w]:
            ops.append(["replace", rng.choice(sorted(present[w])), rng.random() < 0.5, w]); scanned[w] = False
        elif r < 0.5:
            sel = _gen_sel(rng)
            ops.append(["scan", sel])
            for x in _sel_names(sel): scanned[x] = True
        elif r < 0.72:
            sel = _gen_sel(rng)
            noscan = bool(all(scanned[x] for x in _sel_names(sel)) and rng.random() < 0.5)
            ops.append(["find", [gen_expr(rng, dates) for _ in range(rng.choice([1, 1, 2]))], noscan, sel])
            for x in _sel_names(sel): scanned[x] = True
        else:
            sel = _gen_sel(rng)
            dry = rng.random() < 0.3
            if dry:
                sel = [rng.choice(ARCHS)]       # victims are printed without naming the archive
            noscan = bool(all(scanned[x] for x in _sel_names(sel)) and rng.random() < 0.4)
            ops.append(["clean", [gen_expr(rng, dates) for _ in range(rng.choice([1, 1, 2, 3]))], dry, noscan, sel])
            for x in _sel_names(sel): scanned[x] = not dry or True
            if not dry:
                for x in _sel_names(sel): scanned[x] = False
    return {"multi": True, "arts": arts, "ops": ops}

def directed_cases_multi():
    base = {"metaEnv": {}, "deps": [], "rev": 0}
    arts = [dict(base, id=0, package="app", recipe="app", date="2020-01-02T00:00:00"),
            dict(base, id=1, package="app", recipe="app", date="2020-01-05T00:00:00"),
            dict(base, id=2, package="lib", recipe="lib", date="2020-01-03T00:00:00")]
    newest = {"pred": ["==", ["f", "meta.package"], ["s", "app"]], "limit": 1}
    mit = {"pred": ["==", ["f", "metaEnv.LICENSE"], ["s", "MIT"]]}
    out = []
    # same Build-Ids in both archives, built independently: in b artifact 0 is the newer one
    ops = [["add", 0, "a", None], ["add", 1, "a", None], ["add", 2, "a", None],
           ["add", 0, "b", {"date": "2020-01-09T00:00:00", "metaEnv": {"LICENSE": "MIT"}}], ["add", 1, "b", {"date": "2020-01-01T00:00:00"}],
           ["add", 2, "b", {"package": "app", "date": "2020-01-04T00:00:00"}]]
    for sel in (["all"], ["b"], ["b", "a"]):
        out.append({"multi": True, "arts": arts, "directed": "two archives on one index, differing audit data, -a/-b %s" % sel,
                    "ops": ops + [["scan", ["all"]], ["find", [newest], False, sel], ["find", [mit], True, sel], ["clean", [newest], False, False, sel]]})
    out.append({"multi": True, "arts": arts, "directed": "scan a, then clean b only (rows of a must not leak into b)",
                "ops": ops + [["scan", ["a"]], ["clean", [mit], True, False, ["b"]], ["clean", [mit], False, False, ["b"]], ["find", [newest], False, ["a"]],
                              ["clean", [newest], False, False, ["a"]]]})
    out.append({"multi": True, "arts": arts, "directed": "artifact vanishes from one archive only",
                "ops": ops + [["scan", ["all"]], ["remove", 0, "b"], ["find", [newest], False, ["all"]], ["clean", [newest], False, False, ["all"]]]})
    return out

_directed_single = directed_cases
def directed_cases(tier):
    return _directed_single(tier) + directed_cases_multi()

def _parse_sections(output):
    """find output: {archive name: set of listed relative paths}"""
    cur = None
    out = {}
    for l in output.splitlines():
        if l.startswith("archive '") and l.rstrip().endswith("':"):
            cur = l.split("'")[1]
            out.setdefault(cur, set())
        elif l.startswith("\t") and cur is not None:
            out[cur].add(l.strip())
    return out

def run_case_multi(case):
    top = common.scratch_dir("c19m-%d" % os.getpid())
    stats = common.Counter()
    log = []
    viol = None
    stale_used = False
    try:
        proj = os.path.join(top, "proj")
        os.makedirs(os.path.join(proj, "recipes"))
        adir = {w: os.path.join(top, "store-" + w) for w in ARCHS}
        for w in ARCHS:
            os.makedirs(adir[w])
        common.write_file(os.path.join(proj, "config.yaml"), "bobMinimumVersion: \"1.0\"\n")
        common.write_file(os.path.join(proj, "default.yaml"), "archive:\n" + "".join(
            "  - name: %s\n    backend: file\n    path: %s\n    flags: [download, upload, managed]\n" % (w, adir[w]) for w in ARCHS))
        clock = treegen.SimClock()
        base = {a["id"]: dict(a) for a in case["arts"]}
        arts = {w: {i: dict(a) for i, a in base.items()} for w in ARCHS}
        present = {w: set() for w in ARCHS}
        indexed = {w: None for w in ARCHS}
        def sel_argv(sel):
            if sel == ["all"]:
                return ["-a"]
            out = []
            for x in sel:
                out += ["-b", x]
            return out
        for n, op in enumerate(case["ops"]):
            k = op[0]
            if k == "add":
                i, w, var = op[1], op[2], op[3]
                if i not in base or w not in ARCHS:
                    continue
                if var:
                    arts[w][i].update({kk: (dict(vv) if isinstance(vv, dict) else vv) for kk, vv in var.items()})
                    stats.inc("same_buildid_differing_audit")
                write_artifact(adir[w], arts[w][i], arts[w], clock, os.path.join(top, "tmp"))
                present[w].add(i)
                stats.inc("op_add")
                continue
            if k == "replace":
                i, w = op[1], op[3]
                if w not in ARCHS or i not in present[w]:
                    continue
                arts[w][i]["rev"] = arts[w][i].get("rev", 0) + 1
                arts[w][i]["metaEnv"] = dict(arts[w][i]["metaEnv"], TEAM="z")
                if op[2]:
                    arts[w][i]["deps"] = arts[w][i]["deps"][1:]
                write_artifact(adir[w], arts[w][i], arts[w], clock, os.path.join(top, "tmp"))
                stats.inc("op_replace")
                continue
            if k == "remove":
                i, w = op[1], op[2]
                if w in ARCHS and i in present[w]:
                    os.unlink(art_path(adir[w], arts[w][i]))
                    present[w].discard(i)
                    stats.inc("op_remove")
                continue
            sel = op[-1]
            names = _sel_names(sel)
            if any(x not in ARCHS for x in names) or not names:
                continue
            rel2id = {rel_of(base[i]): i for i in base}
            for w in names:
                if indexed[w] is not None and indexed[w] != present[w]:
                    stale_used = True
                    stats.inc("commands_on_stale_index")
            if any(indexed[o] is not None for o in ARCHS if o not in names):
                stats.inc("commands_with_foreign_rows_in_index")
            if len(names) > 1:
                stats.inc("commands_on_two_archives")
            if k == "scan":
                r = loopsim.run_bob(["archive"] + sel_argv(sel) + ["scan"], proj, {}, workdir=top)
                if r.rc != 0:
                    viol = {"kind": "scan-failed", "detail": r.output[-500:]}
                    break
                for w in names:
                    indexed[w] = set(present[w])
                log.append((n, "scan", sel))
                continue
            exprs = op[1]
            noscan = op[2] if k == "find" else op[3]
            model = {}
            try:
                for w in names:
                    model[w] = model_select(exprs, {i: data_of(arts[w][i], arts[w]) for i in present[w]})
            except ModelError:
                stats.inc("expressions_with_invalid_ordering_skipped")
                if not noscan:
                    r = loopsim.run_bob(["archive"] + sel_argv(sel) + ["scan"], proj, {}, workdir=top)
                    if r.rc == 0:
                        for w in names:
                            indexed[w] = set(present[w])
                continue
            argv_e = [render_expr(e) for e in exprs]
            if k == "find":
                argv = ["archive"] + sel_argv(sel) + ["find"] + (["-n"] if noscan else []) + argv_e
                r = loopsim.run_bob(argv, proj, {}, workdir=top)
                stats.inc("cmd_find")
                if r.rc != 0:
                    viol = {"kind": "find-failed", "detail": "%s: %s" % (argv, r.output[-500:])}
                    break
                sect = _parse_sections(r.output)
                if not noscan:
                    for w in names:
                        indexed[w] = set(present[w])
                log.append((n, "find", sorted((w, sorted(v)) for w, v in sect.items())))
                if set(sect) != set(names):
                    viol = {"kind": "find-wrong", "detail": "find %s reported archives %s, selected %s" % (argv, sorted(sect), names)}
                    break
                for w in names:
                    mand, opt = model[w]
                    got = {rel2id.get(x, x) for x in sect[w]}
                    if not (mand <= got <= (mand | opt)):
                        viol = {"kind": "find-wrong",
                                "detail": "find %s listed %s for archive %s; its artifacts select %s (+ optional ties %s); present=%s" % (
                                    argv, sorted(map(str, got)), w, sorted(mand), sorted(opt), sorted(present[w]))}
                        break
                if viol:
                    break
                continue
            dry = op[2]
            argv = ["archive"] + sel_argv(sel) + ["clean"] + (["--dry-run"] if dry else []) + (["-n"] if noscan else []) + argv_e
            before = {w: _listing(adir[w]) for w in ARCHS}
            fresh = None
            if not dry:
                fresh = os.path.join(top, "fresh")
                common.rmtree(fresh)
                os.makedirs(fresh)
                shutil.copytree(proj, os.path.join(fresh, "proj"))
                try:
                    os.unlink(os.path.join(fresh, "proj", ".bob-archive.sqlite3"))
                except FileNotFoundError:
                    pass
                cfgp = os.path.join(fresh, "proj", "default.yaml")
                txt = open(cfgp).read()
                for w in ARCHS:
                    shutil.copytree(adir[w], os.path.join(fresh, "store-" + w))
                    txt = txt.replace(adir[w], os.path.join(fresh, "store-" + w))
                common.write_file(cfgp, txt)
            r = loopsim.run_bob(argv, proj, {}, workdir=top)
            stats.inc("cmd_clean_dry" if dry else "cmd_clean")
            if r.rc != 0:
                viol = {"kind": "clean-failed", "detail": "%s: %s" % (argv, r.output[-500:])}
                break
            after = {w: _listing(adir[w]) for w in ARCHS}
            for w in ARCHS:
                if w not in names and after[w] != before[w]:
                    viol = {"kind": "clean-wrong", "detail": "clean %s changed archive %s which was not selected: removed %s" % (argv, w, sorted(before[w] - after[w]))}
            if viol:
                break
            rng_k = {w: (_closure(model[w][0], present[w], arts[w]), _closure(model[w][0] | model[w][1], present[w], arts[w])) for w in names}
            if dry:
                w = names[0]
                victims = {rel2id.get(l.strip(), l.strip()) for l in r.output.splitlines() if l.strip().endswith(".tgz")}
                log.append((n, "clean-dry", sorted(map(str, victims))))
                if after != before:
                    viol = {"kind": "dry-run-deleted", "detail": "%s removed files" % (argv,)}
                    break
                would_keep = present[w] - {v for v in victims if isinstance(v, int)}
                if not (rng_k[w][0] <= would_keep <= rng_k[w][1]) or any(not isinstance(v, int) for v in victims):
                    viol = {"kind": "dry-run-wrong-victims",
                            "detail": "%s would delete %s from archive %s; model keeps %s..%s of present %s" % (
                                argv, sorted(map(str, victims)), w, sorted(rng_k[w][0]), sorted(rng_k[w][1]), sorted(present[w]))}
                    break
                if not noscan:
                    indexed[w] = set(present[w])
                continue
            kept = {w: {rel2id[x] for x in after[w] if x in rel2id} for w in names}
            log.append((n, "clean", sorted((w, sorted(v)) for w, v in kept.items())))
            for w in names:
                if not (rng_k[w][0] <= kept[w] <= rng_k[w][1]):
                    viol = {"kind": "clean-wrong",
                            "detail": "%s kept %s of present %s in archive %s; model keeps %s (optional ties up to %s); index knew %s" % (
                                argv, sorted(kept[w]), sorted(present[w]), w, sorted(rng_k[w][0]), sorted(rng_k[w][1]),
                                {o: (sorted(v) if v is not None else None) for o, v in indexed.items()})}
                    break
            if viol:
                break
            if all(len(model[w][1]) == 0 for w in names):
                rf = loopsim.run_bob([a for a in argv if a != "-n"], os.path.join(fresh, "proj"), {}, workdir=top)
                kept_fresh = {w: {rel2id[x] for x in _listing(os.path.join(fresh, "store-" + w)) if x in rel2id} for w in names}
                if rf.rc != 0 or kept_fresh != kept:
                    viol = {"kind": "result-depends-on-index-state",
                            "detail": "%s kept %s with the existing index but %s with a fresh one" % (argv, kept, kept_fresh)}
                    break
                stats.inc("fresh_index_comparisons")
            for w in names:
                if before[w] - after[w]:
                    stats.inc("artifacts_deleted", len(before[w] - after[w]))
                present[w] = set(kept[w])
                indexed[w] = set(kept[w])
    finally:
        common.rmtree(top)
    return {"violation": viol, "digest": common.digest_of(log), "stats": dict(stats), "nontrivial": stale_used,
            "sim_time": float(len(log)),
            "sample": {"n_arts": len(case["arts"]), "directed": case.get("directed"), "multi": True,
                       "ops": [[o[0]] + ([[render_expr(e) for e in o[1]]] + o[2:] if o[0] in ("find", "clean") else o[1:]) for o in case["ops"]][:12],
                       "log": log[:8]}}
