"""C06 Parallel builds are schedule independent and bounded.

Layer 1 (engine A): `bob dev -jN [-k]` of generated DAGs (shared packages
reached over several paths, tools, checkouts) under the simulated event loop
with seeded step durations / effect points and injected failing steps.
Monitors over the recorded seam history:
  (a) never more than N subprocess/executor jobs at one virtual instant;
  (b) a step starts only after every dependency step that ran in this
      invocation has ended with status 0;
  (c) each workspace's script starts at most once, never two at once;
  (d) after a step failed no step depending on it runs and the exit status is
      non-zero; with -k every package not depending on it is built and equals
      the sequential result;
  (e) successful builds equal the `-j1` clean build;
  (f) in non-aborted builds the job-server FIFO holds exactly N tokens when the
      job server shuts down;
  (g) the event loop never starves while steps are outstanding.

Layer 2: the token semaphore itself (`JobServerSemaphore`, internal and
external/recursive mode) driven by k tasks (plain jobs and the cook pattern:
spawn children, yield the slot while waiting) on a real pipe with n tokens plus
a foreign `make` that takes and returns tokens, all in virtual time.
Invariants: holders <= tokens available to Bob (+ implicit slot); no exception
from acquire/release; at quiescence exactly n tokens are back in the pipe; no
deadlock while a slot is obtainable.
"""

import asyncio
import os
import random

from .. import common, projgen, buildsim, loopsim, bobq

PROPERTY = "C06"
LEVEL = "exploration"
RULE = ("layer-1 case = generated DAG + job count 1..8 + keep-going flag + seeded durations/effect points + optional "
        "failing step; layer-2 case = batch of semaphore scenarios (mode internal/external, n tokens 0..4, k task "
        "scripts of jobs and nested cook patterns, foreign token thefts) each under its own schedule seed; "
        "non-trivial = at least two jobs overlapped in virtual time (layer 1) / a task had to wait for a token "
        "(layer 2); distinct = digest of the start/end event order")
COMPONENTS = {"real": ["bob.builder.LocalBuilder.cook/_cook/_cookStep/__yieldJobWhile/__taskWrapper", "JobServerSemaphore",
                       "InternalJobServer FIFO (real pipe, real add_reader)", "bash step scripts"],
              "stub": ["event loop clock and completion order (SimLoop)", "foreign make = timer callbacks on the real pipe",
                       "external job server = a plain pipe handed to JobServerSemaphore(recursive=True)"],
              "not_exercised": ["real GNU make children consuming tokens", "Windows (no job server)"]}
ASSUMPTIONS = ["a step script's effect is atomic at one virtual instant (start or end of its interval)",
               "ready callbacks run in FIFO order as asyncio documents"]
SHRINK = ["scenarios"]

def plan(tier):
    if tier == "thorough":
        return {"cases": 4000, "timeout": 600, "wall_budget": 1700, "recheck": 6, "nproc": 6}
    return {"cases": 70, "timeout": 400, "wall_budget": 65, "recheck": 2, "nproc": 6}

# ---------------------------------------------------------------------------
# generation

def _gen_script(rng, depth=0):
    acts = []
    for _ in range(rng.randint(1, 3)):
        if depth < 2 and rng.random() < 0.45:
            acts.append(["cook", rng.choice([0, 0.001, 1, 2]), [_gen_script(rng, depth + 1) for _ in range(rng.randint(1, 3))]])
        else:
            acts.append(["job", rng.choice([0, 0.001, 1, 2, 5])])
    return acts

def gen_case(rng, tier, index):
    if rng.random() < 0.5:
        scen = []
        for _ in range(40):
            n = rng.choice([0, 1, 1, 2, 3, 4])
            s = {"recursive": rng.random() < 0.5, "tokens": n, "seed": rng.getrandbits(32),
                 "tasks": [_gen_script(rng) for _ in range(rng.randint(1, 5))],
                 "foreign": [[rng.choice([0, 0.5, 1, 3]), rng.choice([0.001, 1, 4])]
                             for _ in range(rng.choice([0, 0, 1, 2]))]}
            scen.append(s)
        return {"layer": 2, "scenarios": scen}
    if rng.random() < 0.45:
        r = rng.random()
        return _shape_case(rng) if r < 0.4 else (_shape_failfast(rng) if r < 0.8 else _shape_fingerprint(rng))
    if rng.random() < 0.2:
        # --checkout-only: only checkouts run, but what a checkout needs (its tools) is built for real
        model = projgen.gen_valid_project(rng, nmin=4, nmax=7, features={"checkoutscript", "tools", "checkouttools", "diamond"} |
                                          set(rng.sample(["vars", "forward", "twins", "provideDeps"], rng.randint(0, 2))))
        return {"layer": 1, "model": model, "jobs": rng.choice([1, 2, 2, 3, 4]), "keep_going": False, "checkout_only": True,
                "sched_seed": rng.getrandbits(32), "durations": rng.choice([[0, 0.001, 1, 2], [1], [0, 1]])}
    model = projgen.gen_valid_project(rng, nmin=4, nmax=8,
                                      features=set(rng.sample(["checkoutscript", "diamond", "tools", "vars", "provideDeps",
                                                               "import", "forward", "nobuild", "twins", "twins", "fingerprint", "fingerprint"],
                                                              rng.randint(2, 6))) | {"diamond"})
    case = {"layer": 1, "model": model, "jobs": rng.choice([1, 2, 2, 3, 4, 8]), "keep_going": rng.random() < 0.4,
            "sched_seed": rng.getrandbits(32), "durations": rng.choice([[0, 0.001, 1, 2, 5, 30], [1], [0, 1], [0.001, 5]])}
    if rng.random() < 0.45:
        case["fail"] = {"match": rng.choice(["/build/", "/dist/", "/src/"]) if rng.random() < 0.5 else None,
                        "nth": rng.randint(1, 10), "at": rng.randint(1, 6)}
    return case

def _shape_case(rng):
    """Timing shape that random durations rarely produce: a package reached over a
    short and a long path fails early, long-running siblings saturate the job
    slots, so the long path reaches the failed package only after it is done."""
    import copy
    leafs = ["c"] + ["x%d" % i for i in range(rng.choice([2, 3, 4]))]
    recipes = {}
    def mk(name, deps):
        r = projgen._leaf(rng)
        r["depends"] = [{"name": d, "use": ["result", "deps"]} for d in deps]
        return r
    for l in leafs:
        recipes[l] = mk(l, [])
    chain = ["m", "b"][: rng.choice([1, 2])]
    prev = "c"
    for n in reversed(chain):
        recipes[n] = mk(n, [prev])
        prev = n
    rootdeps = ["c"] + leafs[1:] + [prev]
    rng.shuffle(rootdeps)
    recipes["root"] = mk("root", rootdeps)
    order = ["root"] + chain + leafs
    model = {"recipes": recipes, "classes": {}, "default_env": {}, "sources": {}, "order": order, "features": ["shape-late-visit"]}
    victim = rng.choice(["c", "c", leafs[1]])
    dur = [["/build/%s/" % victim, rng.choice([0.5, 1, 0.001]), 1]]
    for l in leafs[1:]:
        if l != victim:
            dur.append(["/build/%s/" % l, rng.choice([2.5, 5, 30]), rng.choice([0, 1])])
    return {"layer": 1, "model": model, "jobs": rng.choice([2, 2, 3]), "keep_going": rng.random() < 0.8,
            "sched_seed": rng.getrandbits(32), "durations": [0, 0.001], "duration_by_match": dur,
            "fail": {"match": "/build/%s/" % victim, "nth": 1, "at": rng.randint(1, 4)}}

def _shape_failfast(rng):
    """More ready work than job slots when a step fails without keep-going: tasks that
    are queued for a slot at that moment must not start their step afterwards."""
    n = rng.choice([4, 5, 6, 7])
    recipes = {}
    def mk(deps):
        r = projgen._leaf(rng)
        r["depends"] = [{"name": d, "use": ["result", "deps"]} for d in deps]
        return r
    leafs = ["x%d" % i for i in range(n)]
    for l in leafs:
        recipes[l] = mk([])
    mids = []
    if rng.random() < 0.5:
        recipes["m"] = mk(rng.sample(leafs, 2))
        mids = ["m"]
    recipes["root"] = mk(mids + leafs)
    model = {"recipes": recipes, "classes": {}, "default_env": {}, "sources": {}, "order": ["root"] + mids + leafs,
             "features": ["shape-failfast"]}
    victim = rng.choice(leafs)
    step = rng.choice(["build", "build", "dist"])
    dur = [["/%s/%s/" % (step, victim), rng.choice([0.5, 1, 2.5]), 1]]
    for l in leafs:
        if l != victim and rng.random() < 0.5:
            dur.append(["/build/%s/" % l, rng.choice([0.5, 1, 3, 6]), rng.choice([0, 1])])
    return {"layer": 1, "model": model, "jobs": rng.choice([2, 2, 3]), "keep_going": False,
            "sched_seed": rng.getrandbits(32), "durations": [0, 0.001, 0.5, 1], "duration_by_match": dur,
            "fail": {"match": "/%s/%s/" % (step, victim), "nth": 1, "at": rng.randint(1, 4)}}

def _shape_fingerprint(rng):
    """Helper jobs: every leaf has its own fingerprint script, all of them become runnable
    at once during the Build-Id calculation and have to share the job slots with the steps."""
    n = rng.choice([3, 4, 5])
    recipes = {}
    leafs = ["x%d" % i for i in range(n)]
    for l in leafs:
        r = projgen._leaf(rng)
        r["fingerprint"] = True
        recipes[l] = r
    root = projgen._leaf(rng)
    root["depends"] = [{"name": d, "use": ["result", "deps"]} for d in leafs]
    recipes["root"] = root
    model = {"recipes": recipes, "classes": {}, "default_env": {}, "sources": {}, "order": ["root"] + leafs,
             "features": ["shape-fingerprint"]}
    return {"layer": 1, "model": model, "jobs": rng.choice([2, 2, 3]), "keep_going": rng.random() < 0.3,
            "sched_seed": rng.getrandbits(32), "durations": rng.choice([[1], [1, 2], [0.5, 1, 3]])}

def directed_cases(tier):
    # the cook pattern (spawn a child, yield the slot while waiting) under an
    # external job server without free tokens: everything runs on the implicit slot
    return [{"layer": 2, "scenarios": [
        {"recursive": True, "tokens": 0, "seed": 1, "foreign": [],
         "tasks": [[["cook", 1, [[["job", 1]], [["job", 2]]]]]]},
        {"recursive": True, "tokens": 1, "seed": 2, "foreign": [],
         "tasks": [[["cook", 0, [[["job", 1]], [["job", 1]], [["job", 1]]]]], [["job", 2]]]},
        {"recursive": False, "tokens": 1, "seed": 3, "foreign": [[0, 1]],
         "tasks": [[["cook", 1, [[["job", 1]]]]], [["job", 1]]]},
    ]}]

# ---------------------------------------------------------------------------
# layer 2

class _L2:
    def __init__(self, scen):
        self.scen = scen
        self.holders = 0
        self.waiting = 0
        self.waited = False
        self.foreign_held = []
        self.viol = None
        self.log = []
        self.max_holders = 0

def _run_scenario(scen):
    from bob.builder import JobServerSemaphore
    st = _L2(scen)
    loop = loopsim.SimLoop()
    asyncio.set_event_loop(loop)
    rfd, wfd = os.pipe()
    os.set_blocking(rfd, False)
    n = scen["tokens"]
    os.write(wfd, b"+" * n)
    rng = random.Random(scen["seed"])
    sem = JobServerSemaphore((rfd, wfd), scen["recursive"])
    cap = n + (1 if scen["recursive"] else 0)

    def check(where):
        avail = cap - len(st.foreign_held)
        st.max_holders = max(st.max_holders, st.holders)
        if st.holders > avail and st.viol is None:
            st.viol = {"kind": "too-many-jobs",
                       "detail": "%d jobs hold a slot but only %d exist (tokens=%d, implicit=%s, foreign holds %d) at %s t=%.3f" % (
                           st.holders, avail, n, scen["recursive"], len(st.foreign_held), where, loop.time())}

    async def acquire(tag):
        st.waiting += 1
        t0 = loop.time()
        await sem.acquire()
        if loop.time() > t0:
            st.waited = True
        st.waiting -= 1
        st.holders += 1
        st.log.append(("acq", tag, round(loop.time(), 3)))
        check("acquire " + tag)

    def release(tag):
        st.holders -= 1
        st.log.append(("rel", tag, round(loop.time(), 3)))
        sem.release()

    async def run_script(tag, script):
        for i, act in enumerate(script):
            t = "%s.%d" % (tag, i)
            if act[0] == "job":
                await acquire(t)
                try:
                    await asyncio.sleep(act[1])
                finally:
                    release(t)
            else:
                await acquire(t)
                try:
                    kids = [loop.create_task(run_script("%s/%d" % (t, j), s)) for j, s in enumerate(act[2])]
                    # yield the job slot while waiting (LocalBuilder.__yieldJobWhile)
                    release(t + "y")
                    try:
                        await asyncio.wait(kids)
                    finally:
                        await acquire(t + "r")
                    for k in kids:
                        k.result()
                    await asyncio.sleep(act[1])
                finally:
                    release(t)

    def foreign_take():
        try:
            tok = os.read(rfd, 1)
        except BlockingIOError:
            return
        st.foreign_held.append(tok)
        st.log.append(("steal", round(loop.time(), 3)))
        check("foreign take")

    def foreign_give():
        if st.foreign_held:
            os.write(wfd, st.foreign_held.pop())
            st.log.append(("give", round(loop.time(), 3)))

    async def main():
        for at, hold in scen["foreign"]:
            loop.call_later(at, foreign_take)
            loop.call_later(at + hold, foreign_give)
        tasks = [loop.create_task(run_script("T%d" % i, s)) for i, s in enumerate(scen["tasks"])]
        await asyncio.wait(tasks)
        for t in tasks:
            t.result()
        # let outstanding foreign returns happen
        await asyncio.sleep(20)

    try:
        try:
            loop.run_until_complete(main())
        except loopsim.SimDeadlock:
            if cap > 0 and st.viol is None:
                st.viol = {"kind": "semaphore-deadlock",
                           "detail": "no progress possible although %d slot(s) exist; %d tasks waiting, %d holding, foreign holds %d" % (
                               cap, st.waiting, st.holders, len(st.foreign_held))}
        except Exception as e:  # noqa
            if st.viol is None:
                st.viol = {"kind": "semaphore-exception", "detail": "%s: %s (recursive=%s tokens=%d)" % (
                    type(e).__name__, e, scen["recursive"], n)}
        if st.viol is None:
            left = 0
            try:
                while True:
                    b = os.read(rfd, 64)
                    if not b:
                        break
                    left += len(b)
            except BlockingIOError:
                pass
            if left != n:
                st.viol = {"kind": "tokens-not-conserved",
                           "detail": "%d tokens in the pipe at quiescence, expected %d (recursive=%s)" % (left, n, scen["recursive"])}
    finally:
        try:
            for t in asyncio.all_tasks(loop):
                t.cancel()
            loop.run_until_complete(asyncio.sleep(0))
        except BaseException:
            pass
        loop.close()
        asyncio.set_event_loop(None)
        os.close(rfd); os.close(wfd)
    return st

# ---------------------------------------------------------------------------
# layer 1

def _instrument():
    """Extra seam inside the bob child: count the tokens left in the internal
    job server FIFO right before it is shut down."""
    import bob.builder as B
    orig = B.InternalJobServer.shutdown
    def shutdown(self):
        rfd = self._InternalJobServer__rfd
        n = 0
        try:
            while True:
                b = os.read(rfd, 64)
                if not b:
                    break
                n += len(b)
        except BlockingIOError:
            pass
        loopsim.SIM.log("tokens", n, self._InternalJobServer__jobs)
        os.write(self._InternalJobServer__wfd, b"\0" * n)
        return orig(self)
    B.InternalJobServer.shutdown = shutdown
    # who holds a job slot, and when does the builder stop (first failure without -k)?
    o_acq, o_rel = B.JobServerSemaphore.acquire, B.JobServerSemaphore.release
    async def acquire(self):
        await o_acq(self)
        loopsim.SIM.log("slot-acq", loopsim.task_seq())
    def release(self):
        loopsim.SIM.log("slot-rel", loopsim.task_seq())
        return o_rel(self)
    B.JobServerSemaphore.acquire = acquire
    B.JobServerSemaphore.release = release
    def get_running(self):
        return self.__dict__.get("_verif_running", True)
    def set_running(self, v):
        if not v and self.__dict__.get("_verif_running", True):
            loopsim.SIM.log("builder-stopped")
        self.__dict__["_verif_running"] = v
    B.LocalBuilder._LocalBuilder__running = property(get_running, set_running)

def _layer1(case, stats):
    top = common.scratch_dir("c06-%d" % os.getpid())
    log = []
    viol = None
    try:
        proj = os.path.join(top, "w", "proj")
        os.makedirs(proj)
        model = dict(case["model"])
        # fingerprint scripts (helper jobs of the Build-Id calculation) read an emulated host id
        model["hostfile"] = os.path.join(top, "hostid")
        common.write_file(model["hostfile"], "h1\n")
        projgen.materialise(model, proj)
        N = case["jobs"]
        cfg = {"sched_seed": case["sched_seed"], "durations": case["durations"], "pre_hook": "verifsim.checks.c06:_instrument",
               "duration_by_match": case.get("duration_by_match", [])}
        f = case.get("fail")
        if f:
            cfg["script_faults"] = [{"nth": None if f.get("match") else f["nth"], "match": f.get("match"),
                                     "at": f["at"], "kind": "exit"}]
        argv = ["dev", "-j", str(N)] + (["-k"] if case["keep_going"] else []) + (["--checkout-only"] if case.get("checkout_only") else []) + ["root"]
        r = buildsim.bob(proj, argv, cfg)
        ev = r.events
        fired = [e for e in ev if e[0] == "script-fault-fired"]
        failed_n = fired[0][1] if fired else None
        if fired:
            stats.inc("fault_script_exit")
        # (g)
        if any(e[0] == "DEADLOCK" for e in ev):
            return {"kind": "build-deadlock", "detail": "event loop starved: -j%d %s" % (N, r.output[-400:])}, log, False
        exit_ev = [e for e in ev if e[0] == "EXIT"]
        max_running = exit_ev[0][4] if exit_ev else 0
        # (scratch paths contain the pid: keep them out of the digest)
        base = os.path.dirname(top)
        norm = lambda x: x.replace(top, "TOP").replace(base, "BASE") if isinstance(x, str) else x
        log = [(e[0], e[2], norm(e[3][1] if e[0].startswith("sub") else e[3])) for e in ev if e[0] in ("sub-start", "sub-end", "exec-start", "exec-end")]
        # (a)
        if max_running > N:
            return {"kind": "job-limit-exceeded", "detail": "%d jobs ran concurrently with -j%d" % (max_running, N)}, log, True
        if max_running > 1:
            stats.inc("overlapping_builds")
        detail = bobq.query(proj, want=("detail",))
        ws_deps = {}
        for ent in detail.values():
            for s in ent["steps"].values():
                if s.get("valid"):
                    d = os.path.dirname(s["ws"])
                    deps = [os.path.dirname(a) for a in s.get("args", []) if a] + [os.path.dirname(t) for t in s.get("tools", {}).values()]
                    ws_deps.setdefault(d, set()).update(deps)
        def depends_on(d, target, seen=None):
            seen = seen if seen is not None else set()
            if d in seen:
                return False
            seen.add(d)
            return any(x == target or depends_on(x, target, seen) for x in ws_deps.get(d, ()))
        # (b) (c)
        # step scripts only (<workspace dir>/script); fingerprint scripts are helper jobs: they count for
        # the job limit, but the rules about steps, workspaces and failures do not apply to them
        is_step = lambda e: e[3][0] == "bash" and isinstance(e[3][1], str) and "\n" not in e[3][1] and e[3][1].endswith("script")
        started, ended, running = {}, {}, set()
        failed_ws = None
        failed_all = []
        holders = {}            # task -> position of its last slot acquisition
        stopped_at = None
        for pos, e in enumerate(ev):
            if e[0] == "slot-acq":
                holders[e[1]] = pos
            elif e[0] == "slot-rel":
                holders.pop(e[1], None)
            elif e[0] == "builder-stopped" and stopped_at is None:
                stopped_at = pos
            if e[0] == "sub-start" and is_step(e) and stopped_at is not None and not case["keep_going"] \
                    and not any(x[0] == "SIGINT" for x in ev):
                # (d) a failure stops the build: only a task that already held its job slot when
                # the builder stopped may still start the step it was preparing; a task that got
                # its slot afterwards must notice and give up
                t = e[7] if len(e) > 7 else None
                if t is not None and N > 1 and holders.get(t, pos) > stopped_at:
                    return {"kind": "step-started-after-build-stopped",
                            "detail": "%s started by a task that obtained its job slot after the build had been stopped by the "
                                      "failure of %s (no keep-going)" % (os.path.dirname(e[3][1]), failed_ws)}, log, True
            if e[0] == "sub-start" and is_step(e):
                d = os.path.dirname(e[3][1])
                if d in running:
                    return {"kind": "workspace-run-by-two-jobs", "detail": d}, log, True
                if d in started:
                    return {"kind": "workspace-executed-twice", "detail": d}, log, True
                started[d] = e[2]
                running.add(d)
                for dep in ws_deps.get(d, ()):
                    if dep not in ended and dep not in running:
                        # (the workspace is fresh: whatever a step needs has to be produced in this invocation)
                        return {"kind": "step-started-before-dependency-finished",
                                "detail": "%s started although its dependency %s was never executed" % (d, dep)}, log, True
                    if dep in running:
                        return {"kind": "step-started-before-dependency-finished",
                                "detail": "%s started while %s still runs" % (d, dep)}, log, True
                    if dep in ended and ended[dep] != 0:
                        return {"kind": "step-ran-after-failed-dependency",
                                "detail": "%s ran although %s failed with %s" % (d, dep, ended[dep])}, log, True
                for f_ in failed_all:
                    if depends_on(d, f_):
                        return {"kind": "step-ran-after-failed-dependency",
                                "detail": "%s started although %s, on which it (transitively) depends, had already failed" % (d, f_)}, log, True
            elif e[0] == "sub-end" and is_step(e):
                d = os.path.dirname(e[3][1])
                running.discard(d)
                ended[d] = e[4]
                if e[4] not in (0, "cancelled"):
                    failed_all.append(d)
                    if failed_ws is None:
                        failed_ws = d
        toks = [e for e in ev if e[0] == "tokens"]
        if failed_ws is not None:
            if r.rc == 0:
                return {"kind": "failure-not-reported", "detail": "step in %s failed but bob exited 0" % failed_ws}, log, True
            for d in started:
                if d != failed_ws and depends_on(d, failed_ws) and started[d] > started.get(failed_ws, 0):
                    pass    # already covered by (b) at start time
        if case.get("checkout_only"):
            stats.inc("checkout_only_builds")
            if failed_ws is None and r.rc != 0:
                return {"kind": "parallel-build-failed", "detail": "--checkout-only -j%d rc=%d: %s" % (N, r.rc, r.output[-700:])}, log, True
            return None, log, max_running > 1
        oracle = buildsim.CleanOracle(top, True)
        clean = oracle.get(model)
        if clean["rc"] != 0:
            stats.inc("invalid_project_state")
            return None, log, False
        res = buildsim.results_of(proj, buildsim.dist_map(proj, True))
        if failed_ws is None:
            if r.rc != 0:
                return {"kind": "parallel-build-failed", "detail": "-j%d rc=%d: %s" % (N, r.rc, r.output[-700:])}, log, True
            diffs = buildsim.compare(res, clean["results"])
            if diffs:
                return {"kind": "parallel-differs-from-sequential", "detail": "-j%d: %s" % (N, diffs)}, log, True
        elif case["keep_going"] and "/src/" not in failed_ws + "/":
            # (a failing *checkout* also fails the Build-Id calculation of every package above it,
            # which happens before Bob descends into the other dependencies; the statement only
            # demands that the failure is confined to dependents, so that case is not asserted)
            # every package whose steps do not depend on the failed step must be complete and equal
            for path, ent in detail.items():
                dirs = [os.path.dirname(s["ws"]) for s in ent["steps"].values() if s.get("valid")]
                if any(d == failed_ws or depends_on(d, failed_ws) for d in dirs):
                    continue
                if clean["results"].get(path) is not None and res.get(path) != clean["results"][path]:
                    return {"kind": "keep-going-incomplete",
                            "detail": "package %s does not depend on the failed step (%s) but was not built correctly" % (path, failed_ws)}, log, True
            stats.inc("keep_going_with_failure")
        # (f)
        if N > 1 and (failed_ws is None or case["keep_going"]):
            for t in toks:
                if t[1] != t[2]:
                    return {"kind": "jobserver-tokens-not-conserved",
                            "detail": "%d tokens in the FIFO at shutdown, %d configured" % (t[1], t[2])}, log, True
            if toks:
                stats.inc("token_checks")
        return None, log, max_running > 1
    finally:
        common.rmtree(top)

def run_case(case):
    stats = common.Counter()
    if case["layer"] == 2:
        viol = None
        logs = []
        waited = 0
        for i, scen in enumerate(case["scenarios"]):
            st = _run_scenario(scen)
            stats.inc("l2_scenarios")
            stats.inc("l2_recursive" if scen["recursive"] else "l2_internal")
            if st.waited:
                waited += 1
                stats.inc("l2_waited_for_token")
            if scen["foreign"]:
                stats.inc("fault_token_theft", len([x for x in st.log if x[0] == "steal"]))
            logs.append(st.log)
            if st.viol is not None:
                viol = dict(st.viol, detail="scenario %d: %s" % (i, st.viol["detail"]))
                break
        return {"violation": viol, "digest": common.digest_of(logs), "stats": dict(stats),
                "nontrivial": waited > 0, "sim_time": float(len(logs)),
                "sample": {"layer": 2, "scenario0": case["scenarios"][0], "log0": logs[0][:20]}}
    viol, log, nontriv = _layer1(case, stats)
    stats.inc("l1_builds")
    return {"violation": viol, "digest": common.digest_of(log), "stats": dict(stats), "nontrivial": nontriv,
            "sim_time": float(len(log)),
            "sample": {"layer": 1, "jobs": case["jobs"], "keep_going": case["keep_going"], "fail": case.get("fail"),
                       "features": case["model"].get("features"), "events": log[:16]}}

def fixup(case):
    if case["layer"] == 2 and not case["scenarios"]:
        return None
    return case
