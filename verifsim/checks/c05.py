"""C05 Failed or killed builds never poison the workspace.

Engine A with fault injection.  After an optional good build and edit, one to
three consecutive invocations are *aborted*:
  * a step script exits non-zero after its k-th command (partial output);
  * a step script is SIGKILLed at its k-th command, alone or together with Bob;
  * Bob is killed (os._exit, no finally/finalize) at its k-th kill point --
    every persistent-state save (before write / before rename / after rename),
    every fs mutation of the builder, around every subprocess / executor job, and (in part
    of the cases) every mutating statement inside the sqlite transactions of the develop
    directory map and the graph caches;
  * SIGINT (user abort) at a virtual instant with -jN;
  * an SCM fails: the upstream of a url SCM (deterministic, SCM-only checkout pinned by
    digest) is unreachable while the invocation runs, or the copy of the fetched file is cut
    short by an errno (ENOSPC / EDQUOT / EIO after part of the data was written).
Then the stale lock is removed and a fault-free invocation must succeed, every
package result must equal the clean build of the current project state, and a
further repeat must execute nothing.  In enumeration cases every kill point of
the aborted invocation is tried in turn from the same restored workspace.
"""

import os
import shutil

from .. import common, projgen, buildsim, bobq

PROPERTY = "C05"
LEVEL = "fault_enumeration"
RULE = ("case = generated project + optional good build and edit + sequence of 1..3 aborted invocations (script "
        "exit / script kill+Bob kill / Bob kill at point k / SIGINT at virtual time t) + final fault-free build; "
        "enumeration cases try every kill point k of the aborted invocation from the same restored workspace; "
        "non-trivial = a fault actually fired and the final build had to re-execute at least one step; "
        "distinct = digest of (fault kinds and positions, executed-script lists)")
COMPONENTS = {"real": ["bob CLI (dev) end to end incl. catchErrors/finalize paths", "bob.state save/commit", "bash scripts with ERR/EXIT traps"],
              "stub": ["event loop clock/completions (SimLoop)", "SIGINT delivery (captured cancelJobs)",
                       "script fault = DEBUG trap injected through BASH_ENV", "Bob kill = os._exit at numbered sim point"],
              "not_exercised": ["power loss (C10)", "kill *inside* a running script while Bob survives"]}
ASSUMPTIONS = ["scripts are idempotent when re-run over their own partial output",
               "the stale .bob-state.lock of a killed instance is removed before the next invocation"]
SHRINK = ["aborts", "post"]

def plan(tier):
    if tier == "thorough":
        return {"cases": 1500, "timeout": 1500, "wall_budget": 1700, "recheck": 4, "nproc": 6}
    return {"cases": 80, "timeout": 600, "wall_budget": 200, "recheck": 2, "nproc": 6}

def _gen_abort(rng, jobs):
    k = rng.choice(["script-exit", "script-exit", "script-kill", "script-kill-only", "bob-kill", "bob-kill", "bob-kill", "sigint"])
    a = {"kind": k, "jobs": jobs, "sched_seed": rng.getrandbits(32)}
    if k in ("script-exit", "script-kill", "script-kill-only"):
        if rng.random() < 0.7:
            # first script of that kind that runs in the aborted invocation
            a["match"] = rng.choice(["/build/", "/dist/", "/src/", "/build/", "/dist/"])
        else:
            a["nth"] = rng.randint(1, 12)
        a["at"] = rng.randint(1, 14)
    elif k == "bob-kill":
        a["point"] = rng.randint(1, 260)
        if rng.random() < 0.4:
            a["sql"] = True     # statements inside sqlite transactions are kill points, too
    else:
        a["t"] = rng.choice([0, 0.0005, 0.5, 1.5, 3.0, 10.0, 40.0])
        a["jobs"] = rng.choice([2, 4])
    return a

def gen_case(rng, tier, index):
    model = projgen.gen_valid_project(rng)
    url = index % 3 == 2 and projgen.add_url_sources(rng, model) > 0
    pre = []
    hist = [model]
    cur = model
    if url and rng.random() < 0.7:
        # a new upstream release is pinned by the recipe: the SCM-only checkout runs again
        e = projgen.gen_edit(rng, cur, hist, ["url_change"])
        if e is not None:
            pre.append({"edit": e})
            cur = projgen.apply_edit(cur, e, hist)
    elif rng.random() < 0.6:
        # a good build first, then an edit: the abort hits an incremental build
        # content-only edits (no Variant-Id change) are the interesting ones for
        # stale "up to date" decisions, so they get half of the weight
        e = None
        if model["sources"] and rng.random() < 0.5:
            e = projgen.gen_edit(rng, cur, hist, projgen.CONTENT_EDITS)
        if e is None:
            e = projgen.gen_edit(rng, cur, hist)
        if e is not None:
            pre.append({"edit": e})
            cur = projgen.apply_edit(cur, e, hist)
    jobs = rng.choice([1, 1, 2, 4])
    aborts = [_gen_abort(rng, jobs) for _ in range(rng.choice([1, 1, 2, 3]))]
    if url:
        # the upstream server is unreachable while the invocation runs: an SCM fails
        for a in aborts:
            r = rng.random()
            if r < 0.4:
                a.clear()
                a.update({"kind": "scm-fail", "jobs": jobs, "sched_seed": rng.getrandbits(32)})
            elif r < 0.75:
                # short write while the url SCM copies the file (disk full / quota / I/O error)
                a.clear()
                a.update({"kind": "copy-fault", "jobs": jobs, "sched_seed": rng.getrandbits(32), "nth": rng.choice([1, 1, 2]),
                          "frac": rng.choice([0, 0.3, 0.5, 0.9]), "errno": rng.choice(["ENOSPC", "EDQUOT", "EIO", "KILL"])})
    post = []
    if pre and rng.random() < 0.6:
        # after the aborted runs the user reverts the edit (or edits again)
        if rng.random() < 0.6:
            post.append({"edit": {"kind": "revert", "to": 0}})
        else:
            e = projgen.gen_edit(rng, cur, hist + [cur])
            if e is not None:
                post.append({"edit": e})
    case = {"model": model, "pre": pre, "post": post, "good_first": bool(pre) or rng.random() < 0.3, "aborts": aborts,
            "final_jobs": rng.choice([1, 2]), "final_seed": rng.getrandbits(32)}
    if rng.random() < (0.35 if tier == "thorough" else 0.12):
        case["enumerate"] = True
        case["aborts"] = [{"kind": "bob-kill", "jobs": jobs, "sched_seed": rng.getrandbits(32), "point": 1, "sql": index % 2 == 0}]
        # exhaustive for short invocations; sampled (every k-th point from a seeded offset) beyond
        # 60 points so that one case stays within minutes on a loaded machine
        case["max_points"] = 60 if tier == "thorough" else 10
        case["offset"] = rng.randrange(1000)
    return case

def _cfg(a):
    cfg = {"sched_seed": a["sched_seed"]}
    if a["kind"] == "script-exit":
        cfg["script_faults"] = [{"nth": a.get("nth"), "match": a.get("match"), "at": a["at"], "kind": "exit"}]
    elif a["kind"] == "script-kill":
        cfg["script_faults"] = [{"nth": a.get("nth"), "match": a.get("match"), "at": a["at"], "kind": "kill", "kill_bob": True}]
    elif a["kind"] == "script-kill-only":
        # the script dies from SIGKILL (no traps run), Bob survives and reports the failure
        cfg["script_faults"] = [{"nth": a.get("nth"), "match": a.get("match"), "at": a["at"], "kind": "kill"}]
    elif a["kind"] == "bob-kill":
        cfg["kill_at"] = a["point"]
        if a.get("sql"):
            cfg["sql_points"] = True
    elif a["kind"] == "sigint":
        cfg["sigint_at"] = a["t"]
    elif a["kind"] == "copy-fault":
        cfg["copy_fault"] = {"nth": a["nth"], "frac": a["frac"], "errno": a["errno"]}
    return cfg

def _unlock(proj):
    try:
        os.unlink(os.path.join(proj, ".bob-state.lock"))
    except FileNotFoundError:
        pass

def _final_check(proj, model, oracle, case, stats, log, tag):
    """Fault-free build after the aborts; returns violation or None."""
    _unlock(proj)
    r = buildsim.bob(proj, ["dev", "-j", str(case["final_jobs"]), "root"], {"sched_seed": case["final_seed"]})
    ran = buildsim.step_scripts(r)
    log.append((tag, "final", r.rc, sorted(s for _, s in ran)))
    clean = oracle.get(model)
    if clean["rc"] != 0:
        stats.inc("invalid_project_state")
        return None, len(ran)
    if r.rc != 0:
        return {"kind": "build-after-abort-fails",
                "detail": "%s: rc=%d output=%s" % (tag, r.rc, r.output[-900:])}, len(ran)
    res = buildsim.results_of(proj, buildsim.dist_map(proj, True))
    diffs = buildsim.compare(res, clean["results"])
    if diffs:
        # classification for known_findings.json: temporary directory of a url SCM fetch that was
        # interrupted by a kill, still lying in a source workspace; it is the only cause if the results
        # equal the clean build once it is removed
        import re
        stray = []
        for root_, dirs_, _f in os.walk(os.path.join(proj, "dev", "src")):
            for d_ in dirs_:
                if re.fullmatch(r"tmp[a-z0-9_]{8}", d_) and "/workspace" in root_ + "/":
                    stray.append(os.path.join(root_, d_))
        if stray and case.get("_killed_inside_copy"):
            for d_ in stray:
                common.rmtree(d_)
            rr = buildsim.bob(proj, ["dev", "root"], {"sched_seed": case["final_seed"] ^ 9})
            if rr.rc == 0 and not buildsim.compare(buildsim.results_of(proj, buildsim.dist_map(proj, True)), clean["results"]):
                return {"kind": "result-poisoned-by-abort",
                        "detail": "%s: temporary directory of a url SCM fetch interrupted by a kill stays in the source workspace (%s) and "
                                  "is handed to the build step; results equal the clean build once it is removed; %s" % (
                                      tag, [os.path.relpath(x, proj) for x in sorted(stray)], diffs)}, len(ran)
        return {"kind": "result-poisoned-by-abort", "detail": "%s: %s" % (tag, diffs)}, len(ran)
    r2 = buildsim.bob(proj, ["dev", "root"], {"sched_seed": case["final_seed"] ^ 5})
    det = {}
    for ent in bobq.query(proj, want=("detail",)).values():
        s = ent["steps"]["src"]
        if s.get("valid") and s.get("ws"):
            det[os.path.dirname(s["ws"])] = s.get("deterministic")
    bad = [sc for lab, sc in buildsim.step_scripts(r2)
           if lab in ("build", "dist") or (lab == "src" and det.get(os.path.dirname(sc)) is True)]
    if r2.rc != 0 or bad:
        return {"kind": "state-inconsistent-after-recovery",
                "detail": "%s: repeat rc=%d re-executed %s" % (tag, r2.rc, bad)}, len(ran)
    return None, len(ran)

def run_case(case):
    top = common.scratch_dir("c05-%d" % os.getpid())
    stats = common.Counter()
    log = []
    viol = None
    fired_any = False
    reexec = 0
    try:
        proj = os.path.join(top, "w", "proj")
        os.makedirs(proj)
        clock = projgen.StampClock()
        oracle = buildsim.CleanOracle(top, True)
        up = os.path.join(top, "upstream")
        model = dict(case["model"], upstream_root=up)
        hist = [model]
        projgen.write_upstream(model)
        files = projgen.materialise(model, proj, clock)
        if case.get("good_first"):
            r = buildsim.bob(proj, ["dev", "root"], {"sched_seed": 1})
            log.append(("good", r.rc))
            if r.rc != 0:
                raise common.HarnessError("initial build of generated project failed: " + r.output[-500:])
        for p in case["pre"]:
            model = projgen.apply_edit(model, p["edit"], hist)
            hist.append(model)
            projgen.write_upstream(model)
            files = projgen.materialise(model, proj, clock, files)
        if oracle.get(model)["rc"] != 0:
            stats.inc("invalid_project_state")
            return {"violation": None, "digest": common.digest_of(log), "stats": dict(stats), "nontrivial": False}
        if case.get("enumerate"):
            a = case["aborts"][0]
            snap = os.path.join(top, "snap")
            shutil.copytree(proj, snap, symlinks=True)
            # dry run to count the kill points of this invocation
            sqlp = {"sql_points": True} if a.get("sql") else {}
            r = buildsim.bob(proj, ["dev", "-j", str(a["jobs"]), "root"], dict(sqlp, sched_seed=a["sched_seed"]))
            npts = r.npoints or 0
            stats.inc("enumerated_kill_points", npts)
            stride = 1
            if case.get("max_points") and npts > case["max_points"]:
                stride = npts // case["max_points"]
            first = 1 + (case.get("offset", 0) % stride)
            stats.inc("enumeration_exhaustive" if stride == 1 else "enumeration_sampled")
            for k in range(first, npts + 1, stride):
                common.rmtree(proj)
                shutil.copytree(snap, proj, symlinks=True)
                rk = buildsim.bob(proj, ["dev", "-j", str(a["jobs"]), "root"],
                                  dict(sqlp, sched_seed=a["sched_seed"], kill_at=k))
                if not rk.killed:
                    break
                stats.inc("fault_bob_kill")
                fired_any = True
                label = [e[2] for e in rk.events if e[0] == "KILL"]
                viol, n = _final_check(proj, model, oracle, case, stats, log, "kill@%d(%s)" % (k, label[0] if label else "?"))
                reexec += n
                if viol:
                    break
        else:
            for i, a in enumerate(case["aborts"]):
                _unlock(proj)
                if a["kind"] == "scm-fail" and os.path.isdir(up):
                    os.rename(up, up + ".unreachable")
                try:
                    r = buildsim.bob(proj, ["dev", "-j", str(a["jobs"]), "root"], _cfg(a))
                finally:
                    if os.path.isdir(up + ".unreachable"):
                        os.rename(up + ".unreachable", up)
                if a["kind"] == "copy-fault" and a.get("errno") == "KILL" and r.killed:
                    stats.inc("fault_bob_killed_inside_scm_copy")
                    case["_killed_inside_copy"] = True
                fired = (r.killed or any(e[0] in ("script-fault-fired", "SIGINT", "copy-fault-fired") for e in r.events)
                         or (a["kind"] == "scm-fail" and r.rc != 0))
                log.append(("abort", i, a["kind"], r.rc, fired, [e[2] for e in r.events if e[0] == "KILL"]))
                if fired:
                    fired_any = True
                    stats.inc("fault_" + a["kind"].replace("-", "_"))
                    if a["kind"] in ("script-exit", "script-kill-only") and r.rc == 0:
                        viol = {"kind": "failed-step-ignored",
                                "detail": "script %s failed at command %d but bob exited 0" % (a.get("nth") or a.get("match"), a["at"])}
                        break
                else:
                    stats.inc("fault_not_fired")
                if any(e[0] == "DEADLOCK" for e in r.events):
                    viol = {"kind": "deadlock", "detail": "abort %d (%s): event loop starved" % (i, a["kind"])}
                    break
            if viol is None:
                for p in case.get("post", []):
                    model = projgen.apply_edit(model, p["edit"], hist)
                    hist.append(model)
                    projgen.write_upstream(model)
                    files = projgen.materialise(model, proj, clock, files)
                    stats.inc("post_abort_edit_" + p["edit"]["kind"])
                viol, reexec = _final_check(proj, model, oracle, case, stats, log, "after-aborts")
        stats.inc("clean_builds", oracle.runs)
    finally:
        common.rmtree(top)
    return {"violation": viol, "digest": common.digest_of(log), "stats": dict(stats),
            "nontrivial": bool(fired_any and reexec > 0), "sim_time": float(len(log)),
            "sample": {"features": case["model"].get("features"), "aborts": case["aborts"],
                       "enumerate": case.get("enumerate", False), "log": log[:8]}}

def directed_cases(tier):
    """The history that defeats a stale "inputs unchanged" decision: good build, content
    edit of an imported source, abort inside the re-run step after it modified its
    workspace, the user reverts the edit, fault-free build."""
    import random
    rng = random.Random(505)
    out = []
    want = 36 if tier == "thorough" else 12
    kinds = ["script-exit", "script-kill", "script-kill-only"]
    tries = 0
    while len(out) < want and tries < 400:
        tries += 1
        model = projgen.gen_valid_project(rng, features={"import", "vars", "diamond"} | set(rng.sample(
            ["tools", "classes", "depenv", "provideVars", "checkoutscript"], rng.randint(0, 2))))
        if not model["sources"]:
            continue
        step = ["/build/", "/build/", "/dist/"][(len(out) // len(kinds)) % 3]
        if len(out) % 2 == 0:
            e = projgen.gen_edit(rng, model, [model], ["src_modify"])
        else:
            # the edit changes the step's script (Variant-Id): the workspace is pruned and handed to the
            # new variant, the new script leaves partial output, the revert hands it back
            cands = [n for n in model["order"] if model["recipes"][n]["build"]]
            e = {"kind": "salt", "recipe": rng.choice(cands), "step": "build" if step == "/build/" else "package",
                 "value": "%x" % rng.getrandbits(24)}
            step = "%s%s/" % (step, e["recipe"])
        if e is None:
            continue
        a = {"kind": kinds[len(out) % len(kinds)], "jobs": 1, "sched_seed": rng.getrandbits(32),
             "match": step, "at": rng.randint(3, 9)}
        out.append({"model": model, "pre": [{"edit": e}], "post": [{"edit": {"kind": "revert", "to": 0}}],
                    "good_first": True, "aborts": [a], "final_jobs": 1, "final_seed": rng.getrandbits(32),
                    "directed": "content edit, abort in the re-run step, revert"})
    return out

def _directed_url(tier):
    """Deterministic SCM-only checkout (url SCM pinned by digest), built once; the recipe moves to a
    new upstream release; the fetch fails (upstream unreachable) or Bob is killed during the
    checkout; plain re-invocation (or revert) must converge to the clean build."""
    import random
    rng = random.Random(5051)
    out = []
    want = 18 if tier == "thorough" else 4
    tries = 0
    while len(out) < want and tries < 200:
        tries += 1
        model = projgen.gen_valid_project(rng, features={"vars", "diamond"} | set(rng.sample(["tools", "classes", "checkoutscript"], rng.randint(0, 1))))
        if projgen.add_url_sources(rng, model, p=0.7) == 0:
            continue
        e = projgen.gen_edit(rng, model, [model], ["url_change"])
        if e is None:
            continue
        i = len(out)
        if i % 3 == 2:
            a = {"kind": "script-kill", "jobs": 1, "sched_seed": rng.getrandbits(32), "match": "/build/", "at": rng.randint(2, 6)}
        elif i % 3 == 1:
            a = {"kind": "copy-fault", "jobs": 1, "sched_seed": rng.getrandbits(32), "nth": 1, "frac": rng.choice([0.3, 0.6]),
                 "errno": rng.choice(["ENOSPC", "EIO"])}
        else:
            a = {"kind": "scm-fail", "jobs": rng.choice([1, 2]), "sched_seed": rng.getrandbits(32)}
        post = [] if i % 2 == 0 else [{"edit": {"kind": "revert", "to": 0}}]
        out.append({"model": model, "pre": [{"edit": e}], "post": post, "good_first": True, "aborts": [a] * (1 + i % 2),
                    "final_jobs": 1, "final_seed": rng.getrandbits(32),
                    "directed": "SCM-only checkout moves to a new release, fetch fails, re-invocation"})
    if out:
        # Bob killed while the url SCM copies the file (temporary data of the fetch stays behind)
        out.append(dict(out[0], aborts=[{"kind": "copy-fault", "jobs": 1, "sched_seed": 11, "nth": 1, "frac": 0.5, "errno": "KILL"}], post=[],
                        directed="SCM-only checkout moves to a new release, Bob killed inside the copy of the fetched file"))
    # every kill point of the invocation that switches the url SCM
    if out:
        c = dict(out[0], aborts=[{"kind": "bob-kill", "jobs": 1, "sched_seed": 7, "point": 1}], enumerate=True,
                 max_points=40 if tier == "thorough" else 12, offset=3, post=[],
                 directed="SCM-only checkout moves to a new release, Bob killed at every k-th point")
        out.append(c)
    return out

_directed_scripts = directed_cases
def directed_cases(tier):
    return _directed_scripts(tier) + _directed_url(tier)

def fixup(case):
    if not case["aborts"]:
        return None
    return case
