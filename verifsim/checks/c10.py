"""C10 Workspace state commits atomically and is single-writer.

Two simulations:

(A) crash images (engine C, "crashfs").  A history of public state mutators,
    split into several invocations, runs once against the real `_BobState`
    with `bob.state.{open,os,replacePath,pickle}` rebound to recording proxies.
    The recorded file-system trace (create/write/close/fsync/rename/unlink with
    contents) is then cut after *every* prefix; for each cut a small durability
    model materialises crash images: directory operations are atomic and
    ordered, file content is only guaranteed up to the last fsync -- everything
    written later may be complete, cut at any byte (torn), or have zero-filled
    tails / holes (unflushed blocks).
    A fresh `_BobState()` is started on every image (stale lock removed).
    Oracle: it constructs without exception and its complete content equals
    exactly one saved snapshot S_i with i >= c, c = snapshot current at the end
    of the last completed invocation (compared field by field -> no mixtures).
    Also: ENOSPC/EIO on a state write surfaces as ParseError and loses nothing
    that was committed.

(B) single writer (engine B, procsim).  2..3 real processes construct / use /
    finalize `_BobState` in one directory under a seeded one-op-at-a-time
    schedule.  Oracle: never two holders at once; a refused instance raises
    ParseError; after all holders finalized a new instance starts.
"""

import copy
import io
import os
import pickle
import struct

from .. import common, procsim

PROPERTY = "C10"
LEVEL = "fault_enumeration"
RULE = ("case A = sequence of public state mutators split into invocations; every prefix of the recorded "
        "fs-operation trace is a crash point and for each several crash images (intact / cut / zero-filled tail / "
        "zero-filled hole in unsynced content) are loaded; case B = 2..3 processes racing for the workspace lock under an "
        "explicit schedule; non-trivial = at least one image with torn uncommitted content was loaded (A) or "
        "two processes overlapped (B); distinct = digest of (op sequence, trace length) / event log")
COMPONENTS = {"real": ["bob.state._BobState (constructor, __save, __commit, finalize, all mutators)",
                       "DigestAdder checksum", "O_CREAT|O_EXCL lock file on tmpfs"],
              "stub": ["power-loss behaviour of the disk (durability model: ordered atomic metadata, unsynced data arbitrary)",
                       "process scheduling in part B"],
              "not_exercised": ["sqlite build-id cache durability", "Windows replacePath retry loop"]}
ASSUMPTIONS = ["directory operations (create, rename, unlink) are atomic and ordered (journalled metadata)",
               "data written but not fsynced may be lost: cut at any byte, zero-filled tail or zero-filled hole (not arbitrary garbage)",
               "the stale lock of a killed instance is removed before the restart (as the property states)"]
SHRINK = ["ops"]

def plan(tier):
    if tier == "thorough":
        return {"cases": 6000, "timeout": 300, "wall_budget": 1500, "recheck": 10, "batch": 4}
    return {"cases": 260, "timeout": 240, "wall_budget": 60, "recheck": 3, "batch": 4}

PATHS = ["dev/src/a/1/workspace", "dev/build/a/1/workspace", "dev/dist/a/1/workspace",
         "dev/dist/b/1/workspace", "work/x/dist/1/workspace"]

def _val(rng):
    """JSON-able value descriptor; materialised by _mk()."""
    return {"$v": rng.randrange(6), "s": rng.getrandbits(30)}

def _mk(d):
    if isinstance(d, list):
        return [_mk(x) for x in d]
    if not (isinstance(d, dict) and "$v" in d):
        if isinstance(d, dict) and "$buildstate" in d:
            return {"wasRun": {d["$buildstate"]: (b"v" * 20, False)}, "predictedBuidId": {}}
        return d
    import random
    r = random.Random(d["s"])
    k = d["$v"]
    if k == 0: return bytes(r.getrandbits(8) for _ in range(20))
    if k == 1: return [bytes([r.getrandbits(8)] * 20) for _ in range(r.randrange(4))]
    if k == 2: return {"a": (bytes([r.getrandbits(8)] * 4), {"scm": "git", "n": r.randrange(9)}), None: (b"v", None)}
    if k == 3: return "s%d" % r.getrandbits(30)
    if k == 4: return (bytes([r.getrandbits(8)] * 20), "/shared/%d" % r.randrange(9))
    return bytes(r.getrandbits(8) for _ in range(r.choice([1, 200, 3000])))

def gen_case(rng, tier, index):
    if rng.random() < 0.25:
        nact = rng.choice([2, 2, 3])
        return {"mode": "lock", "actors": [{"name": "p%d" % i, "ops": rng.randrange(0, 4),
                                            "retries": rng.choice([0, 1, 2])} for i in range(nact)],
                "sched_seed": rng.getrandbits(32), "stickiness": rng.choice([0.0, 0.5, 0.9]),
                "faults": ([{"actor": "p%d" % rng.randrange(nact), "at": rng.randrange(1, 25), "kind": "kill"}]
                           if rng.random() < 0.3 else [])}
    ops = []
    n = rng.choice([3, 6, 10, 16, 24])
    depth = 0
    for _ in range(n):
        r = rng.random()
        p = rng.choice(PATHS)
        if r < 0.15: ops.append(["setResultHash", p, _val(rng)])
        elif r < 0.27: ops.append(["setInputHashes", p, _val(rng)])
        elif r < 0.33: ops.append(["delInputHashes", p])
        elif r < 0.43: ops.append(["setDirectoryState", p, _val(rng)])
        elif r < 0.49: ops.append(["resetWorkspaceState", p, rng.choice([None, _val(rng)])])
        elif r < 0.57: ops.append(["setVariantId", p, _val(rng)])
        elif r < 0.63: ops.append(["getByNameDirectory", rng.choice(["work/a/dist", "work/b/src"]),
                                   "%040x" % rng.getrandbits(20), rng.random() < 0.5])
        elif r < 0.68: ops.append(["setAtticDirectoryState", "dev/src/a/attic/" + str(rng.randrange(3)), _val(rng)])
        elif r < 0.71: ops.append(["delAtticDirectoryState", "dev/src/a/attic/" + str(rng.randrange(3))])
        elif r < 0.75: ops.append(["setLayerState", "layers/" + rng.choice("xy"), _val(rng)])
        elif r < 0.78: ops.append(["delLayerState", "layers/" + rng.choice("xy")])
        elif r < 0.82: ops.append(["setBuildState", {"$buildstate": p}])
        elif r < 0.86: ops.append(["setStoragePath", p, rng.choice([p, "/shared/x/workspace"])])
        elif r < 0.90 and depth == 0:
            ops.append(["async_begin"]); depth += 1
        elif r < 0.94 and depth > 0:
            ops.append(["async_end"]); depth -= 1
        elif depth == 0:
            ops.append(["restart"])
    while depth > 0:
        ops.append(["async_end"]); depth -= 1
    case = {"mode": "crash", "ops": ops, "img_seed": rng.getrandbits(32)}
    r = rng.random()
    if r < 0.15:
        case["fail_write"] = {"nth": rng.randrange(1, 12), "errno": rng.choice([28, 5])}
    elif r < 0.3:
        # the error surfaces when the file is closed (flush of the buffered tail)
        case["fail_close"] = {"nth": rng.randrange(1, 8), "errno": rng.choice([28, 5, 122])}
    return case

# ---------------------------------------------------------------------------
# part A: recording proxies + durability model

class _Rec:
    """Records the fs trace of bob.state and the snapshots it pickles."""
    def __init__(self, root):
        self.root = root
        self.trace = []          # ("create", name) ("write", name, bytes) ("fsync", name) ("rename", a, b) ("unlink", name) ("snap", i) ("commit-point",)
        self.snaps = []
        self.fail_write = None
        self.nwrites = 0
        self.fdnames = {}

class _RecFile:
    def __init__(self, rec, f, name):
        self._rec, self._f, self._name = rec, f, name
    def write(self, data):
        r = self._rec
        r.nwrites += 1
        if r.fail_write and r.nwrites == r.fail_write["nth"]:
            half = bytes(data)[: len(data) // 2]
            if half:
                self._f.write(half)
                r.trace.append(("write", self._name, half))
            raise OSError(r.fail_write["errno"], os.strerror(r.fail_write["errno"]) + " [injected]")
        r.trace.append(("write", self._name, bytes(data)))
        return self._f.write(data)
    def read(self, *a):
        return self._f.read(*a)
    def fileno(self):
        self._f.flush()
        self._rec.fdnames[self._f.fileno()] = self._name
        return self._f.fileno()
    def __enter__(self):
        return self
    def __exit__(self, *a):
        self.close()
        return False
    def close(self):
        r = self._rec
        fc = getattr(r, "fail_close", None)
        if fc and not self._f.closed and "w" in getattr(self._f, "mode", ""):
            r.ncloses = getattr(r, "ncloses", 0) + 1
            if r.ncloses == fc["nth"]:
                # the flush of the user-space buffer fails (ENOSPC, EIO ...): what was not written out
                # in whole buffer-sized blocks before never reaches the file
                self._f.flush()
                size = os.fstat(self._f.fileno()).st_size
                keep = (size // 8192) * 8192
                os.ftruncate(self._f.fileno(), keep)
                # (the file may have been renamed while it was open)
                r.trace.append(("truncate", getattr(r, "alias", {}).get(self._name, self._name), keep))
                self._f.close()
                raise OSError(fc["errno"], os.strerror(fc["errno"]) + " [injected]")
        self._f.close()
    def __getattr__(self, k):
        return getattr(self._f, k)

def _install_recorder(rec):
    import bob.state as S
    real_open = open
    def rel(p):
        p = os.fspath(p)
        return os.path.relpath(p, rec.root) if os.path.isabs(p) else p
    def r_open(name, mode="r", *a, **kw):
        f = real_open(name, mode, *a, **kw)
        if "w" in mode:
            rec.trace.append(("create", rel(name)))
            rec.__dict__.setdefault("alias", {}).pop(rel(name), None)
        if "b" in mode:
            return _RecFile(rec, f, rel(name))
        return f
    def r_replace(src, dst):
        os.replace(src, dst)
        rec.trace.append(("rename", rel(src), rel(dst)))
        rec.__dict__.setdefault("alias", {})[rel(src)] = rel(dst)
    class OsProxy:
        def __getattr__(self, k):
            return getattr(os, k)
        def fsync(self, fd):
            os.fsync(fd)
            rec.trace.append(("fsync", rec.fdnames.get(fd, "?")))
        def unlink(self, p):
            os.unlink(p)
            rec.trace.append(("unlink", rel(p)))
    class PickleProxy:
        def __getattr__(self, k):
            return getattr(pickle, k)
        def dump(self, obj, f, *a, **kw):
            rec.snaps.append(copy.deepcopy(obj))
            rec.trace.append(("snap", len(rec.snaps) - 1))
            return pickle.dump(obj, f, *a, **kw)
    S.open = r_open
    S.replacePath = r_replace
    S.os = OsProxy()
    S.pickle = PickleProxy()

def _uninstall_recorder():
    import bob.state as S
    import bob.utils
    S.__dict__.pop("open", None)
    S.replacePath = bob.utils.replacePath
    S.os = os
    S.pickle = pickle

STATE_FIELDS = ["byNameDirs", "results", "inputs", "jenkins", "dirStates", "layerStates", "buildState",
                "variantIds", "atticDirs", "createdWithVersion", "storagePath"]

def _dump_instance(st):
    d = {}
    for k in STATE_FIELDS:
        d[k] = copy.deepcopy(getattr(st, "_BobState__" + k))
    return d

def _snap_norm(s):
    return {k: s[k] for k in STATE_FIELDS}

def _apply(st, op):
    k = op[0]
    if k == "async_begin": st.setAsynchronous()
    elif k == "async_end": st.setSynchronous()
    elif k == "getByNameDirectory": st.getByNameDirectory(op[1], op[2], op[3])
    else: getattr(st, k)(*[_mk(x) for x in op[1:]])

def _record_history(root, case):
    """Run the history against the real _BobState; returns (rec, committed_index_at, parse_error)."""
    from bob.state import _BobState
    from bob.errors import ParseError
    rec = _Rec(root)
    rec.fail_write = case.get("fail_write")
    rec.fail_close = case.get("fail_close")
    _install_recorder(rec)
    cwd = os.getcwd()
    os.chdir(root)
    err = None
    try:
        st = _BobState()
        rec.trace.append(("started",))
        cur_model = _dump_instance(st)      # S_-1: what a fresh start sees (empty)
        try:
            for op in case["ops"]:
                if op[0] == "restart":
                    st.finalize()
                    rec.trace.append(("finalized", len(rec.snaps) - 1))
                    st = _BobState()
                    rec.trace.append(("started",))
                else:
                    _apply(st, op)
        except ParseError as e:
            if "[injected]" not in str(e):
                raise
            err = str(e)
            # the CLI's finally: finalize() -- tolerate its dirty assertion
            # (the write failed, so this invocation did not "complete": the
            # committed index is not advanced)
            try:
                st._BobState__asynchronous = 0
                st._BobState__dirty = False
                st.finalize()
            except Exception:
                pass
    finally:
        os.chdir(cwd)
        _uninstall_recorder()
    return rec, err

class _Disk:
    """Durability model replaying a trace prefix."""
    def __init__(self):
        self.files = {}     # name -> {"data": bytearray, "synced": int}
    def apply(self, ev):
        k = ev[0]
        if k == "create":
            self.files[ev[1]] = {"data": bytearray(), "synced": 0}
        elif k == "write":
            self.files[ev[1]]["data"] += ev[2]
        elif k == "truncate":
            f = self.files.get(ev[1])
            if f is not None:
                del f["data"][ev[2]:]
                f["synced"] = min(f["synced"], ev[2])
        elif k == "fsync":
            f = self.files.get(ev[1])
            if f is not None:
                f["synced"] = len(f["data"])
        elif k == "rename":
            if ev[1] in self.files:
                self.files[ev[2]] = self.files.pop(ev[1])
        elif k == "unlink":
            self.files.pop(ev[1], None)

def _variants(data, synced, rng, full):
    """Possible on-disk contents of a file whose bytes beyond `synced` were never flushed."""
    data = bytes(data)
    out = [("intact", data)]
    n = len(data)
    if synced >= n:
        return out
    cuts = {synced, synced + 1, n - 1, n - 4, n - 5, (synced + n) // 2}
    cuts |= {rng.randrange(synced, n) for _ in range(4 if full else 2)}
    for c in sorted(c for c in cuts if synced <= c < n):
        out.append(("cut@%d" % c, data[:c]))
    z = rng.randrange(synced, n)
    out.append(("zero@%d" % z, data[:z] + b"\0" * (n - z)))
    if n - synced > 8:
        # a block in the middle that never reached the disk (hole), later blocks did
        g = rng.randrange(synced, n - 4)
        ln = rng.choice([1, 4, 64, 512])
        out.append(("hole@%d+%d" % (g, ln), data[:g] + b"\0" * min(ln, n - g) + data[g + ln:]))
    # (Arbitrarily garbled bytes are deliberately not part of the model: the statement
    # speaks of torn or unflushed content, and no 32-bit checksum survives arbitrary
    # corruption -- a 4-byte XOR pattern that defeats Adler-32 was indeed found by an
    # earlier version of this check and judged a false alarm.)
    return out

def _run_crash(case, stats):
    import random
    from bob.state import _BobState
    top = common.scratch_dir("c10-%d" % os.getpid())
    rec_root = os.path.join(top, "rec")
    os.makedirs(rec_root)
    viol = None
    log = []
    try:
        rec, err = _record_history(rec_root, case)
        trace = rec.trace
        snaps = [None] + [_snap_norm(s) for s in rec.snaps]     # index 0 = initial empty state
        rng = random.Random(case["img_seed"])
        from bob.state import _BobState as BS
        empty = None
        # committed index c as a function of the trace position
        disk = _Disk()
        c = 0
        last_snap = 0
        img_root = os.path.join(top, "img")
        nimg = 0
        torn = 0
        fs_events = [i for i, ev in enumerate(trace) if ev[0] in ("create", "write", "fsync", "rename", "unlink")]
        stats.inc("trace_fs_ops", len(fs_events))
        for pos, ev in enumerate(trace):
            if ev[0] == "snap":
                last_snap = ev[1] + 1
                continue
            if ev[0] == "finalized":
                c = ev[1] + 1
                continue
            if ev[0] == "started":
                continue
            disk.apply(ev)
            # crash right after this fs operation (and, through the content
            # variants of unsynced files, in the middle of later writes)
            names = sorted(disk.files)
            per_file = {n: _variants(disk.files[n]["data"], disk.files[n]["synced"], rng, False) for n in names}
            combos = [[(n, per_file[n][0]) for n in names]]
            for n in names:
                for v in per_file[n][1:]:
                    combos.append([(m, (v if m == n else per_file[m][0])) for m in names])
            for combo in combos:
                common.rmtree(img_root)
                os.makedirs(img_root)
                label = []
                for n, (vn, content) in combo:
                    common.write_file(os.path.join(img_root, n), content)
                    if vn != "intact":
                        label.append("%s:%s" % (n, vn))
                        torn += 1
                nimg += 1
                cwd = os.getcwd()
                os.chdir(img_root)
                try:
                    try:
                        st = BS()
                    except Exception as e:
                        viol = {"kind": "restart-fails-after-crash",
                                "detail": "crash after trace op %d %r, image %s: %s: %s" % (
                                    pos, ev[:2], label or "intact", type(e).__name__, e)}
                        break
                    got = _dump_instance(st)
                    # the recovering invocation completes -- idle, or after one more update --
                    # and the start after that must find exactly what it left
                    upd = rng.random() < 0.3
                    try:
                        held = got
                        if upd:
                            st.setResultHash("dev/dist/recover/1/workspace", b"r%d" % nimg)
                            held = _dump_instance(st)
                        st.finalize()
                        st2 = BS()
                        got2 = _dump_instance(st2)
                        st2.finalize()
                    except Exception as e:
                        viol = {"kind": "restart-fails-after-recovery",
                                "detail": "crash after trace op %d %r, image %s: the first start recovered, the %s invocation completed, "
                                          "then: %s: %s" % (pos, ev[:2], label or "intact", "updating" if upd else "idle", type(e).__name__, e)}
                        break
                    if got2 != held:
                        viol = {"kind": "state-lost-after-recovery",
                                "detail": "crash after trace op %d %r, image %s: state loaded after a completed %s invocation differs from "
                                          "what that invocation held" % (pos, ev[:2], label or "intact", "updating" if upd else "idle")}
                        break
                finally:
                    os.chdir(cwd)
                if empty is None:
                    pass
                match = [i for i, s in enumerate(snaps) if _eq_state(got, s)]
                ok = [i for i in match if i >= c]
                if not ok:
                    if match:
                        viol = {"kind": "state-older-than-last-completed-invocation",
                                "detail": "crash after trace op %d %r image %s: loaded snapshot %s but the last completed invocation ended with snapshot %d" % (
                                    pos, ev[:2], label or "intact", match, c)}
                    else:
                        viol = {"kind": "state-is-no-saved-snapshot",
                                "detail": "crash after trace op %d %r image %s: loaded state equals none of the %d saved snapshots (mixture or garbage)" % (
                                    pos, ev[:2], label or "intact", len(snaps))}
                    break
            log.append((pos, ev[0], len(combos)))
            if viol:
                break
        stats.inc("crash_points", len(log))
        stats.inc("crash_images", nimg)
        stats.inc("torn_images", torn)
        stats.inc("snapshots", len(snaps) - 1)
        if err:
            stats.inc("fault_write_errno")
        return viol, log, torn > 0
    finally:
        common.rmtree(top)

def _eq_state(got, snap):
    if snap is None:
        # initial state of an empty workspace
        return (all(not got[k] for k in STATE_FIELDS if k != "createdWithVersion"))
    return all(got[k] == snap[k] for k in STATE_FIELDS)

# ---------------------------------------------------------------------------
# part B: single writer

def _lock_actor(root, a):
    import bob.state as S
    from bob.errors import ParseError
    S.os = procsim.ModProxy(os, "os", points={"open", "unlink", "fsync", "close"},
                            sub={"path": procsim.ModProxy(os.path, "os.path", points={"exists"})})
    S.open = procsim.make_open()
    S.replacePath = procsim.wrap("replace", os.replace)
    procsim.WRITE_STRIDE = 1000
    os.chdir(root)
    res = []
    for attempt in range(a["retries"] + 1):
        try:
            st = S._BobState()
        except ParseError as e:
            res.append("refused")
            procsim.point("REFUSED")
            continue
        procsim.point("HOLD")
        for i in range(a["ops"]):
            st.setResultHash("p/%s/%d" % (a["name"], i), a["name"].encode() * 5)
        procsim.point("RELEASING")
        st.finalize()
        procsim.point("RELEASED")
        res.append("held")
    return res

def _run_lock(case, stats):
    root = common.scratch_dir("c10l-%d" % os.getpid())
    sim = None
    viol = None
    try:
        sim = procsim.ProcSim(root, sched_seed=case["sched_seed"], stickiness=case["stickiness"],
                              faults=case.get("faults"), decisions=case.get("decisions"))
        for a in case["actors"]:
            sim.spawn(a["name"], _lock_actor, root, a)
        holders = set()
        stale = set()
        box = {"v": None, "overlap": False}
        def on_step(actor, cur):
            # the op just *granted* was cur; the actor is now parked at its next point
            if cur[1] == "HOLD":
                pass
            nxt = actor.cur[1] if actor.state == "ready" else None
            if cur[1] == "KILL":
                if actor.name in holders:
                    holders.discard(actor.name)
                    stale.add(actor.name)
                return True
            if nxt == "HOLD" and actor.name not in holders:
                # constructor returned successfully
                if holders:
                    box["v"] = {"kind": "two-writers",
                                "detail": "%s constructed while %s holds the workspace" % (actor.name, sorted(holders))}
                    return False
                holders.add(actor.name)
            if cur[1] == "RELEASING":
                holders.discard(actor.name)
            if len([x for x in sim.actors if x.state in ("ready", "blocked")]) > 1:
                box["overlap"] = True
            return True
        sim.run(on_step)
        viol = box["v"]
        results = {}
        for a in sim.actors:
            if a.result and a.result[0] == "exc" and viol is None:
                if "SimHarnessError" in a.result[1][0]:
                    raise procsim.SimHarnessError(a.result[1][0])
                viol = {"kind": "unexpected-exception", "detail": "%s: %s" % (a.name, a.result[1][1][-600:])}
            results[a.name] = (a.state, a.result[1] if a.result and a.result[0] == "ok" else None)
        # killed while constructing may also leave a lock behind
        killed = any(f[0] == "kill" for f in sim.fired)
        if viol is None and not killed:
            from bob.state import _BobState
            cwd = os.getcwd()
            os.chdir(root)
            try:
                try:
                    st = _BobState()
                    # everything the holders saved must be there
                    for a in case["actors"]:
                        held = results[a["name"]][1] or []
                        if "held" in held:
                            for i in range(a["ops"]):
                                if st.getResultHash("p/%s/%d" % (a["name"], i)) != a["name"].encode() * 5:
                                    viol = {"kind": "lost-update", "detail": "update of %s #%d missing" % (a["name"], i)}
                    st.finalize()
                except Exception as e:
                    viol = {"kind": "cannot-start-after-all-finalized", "detail": "%s: %s" % (type(e).__name__, e)}
            finally:
                os.chdir(cwd)
        for f in sim.fired:
            stats.inc("fault_" + f[0])
        stats.inc("lock_steps", sim.step)
        stats.inc("lock_refused", sum(1 for r in results.values() for x in (r[1] or []) if x == "refused"))
        log = [(e[1], e[2]) for e in sim.log]
        return viol, log, box["overlap"]
    finally:
        if sim is not None:
            sim.shutdown()
        common.rmtree(root)

def run_case(case):
    stats = common.Counter()
    if case["mode"] == "lock":
        viol, log, nontriv = _run_lock(case, stats)
        stats.inc("cases_lock")
        sample = {"mode": "lock", "actors": case["actors"], "faults": case.get("faults"), "events": log[:20]}
    else:
        viol, log, nontriv = _run_crash(case, stats)
        stats.inc("cases_crash")
        sample = {"mode": "crash", "ops": case["ops"][:10], "n_ops": len(case["ops"]),
                  "fail_write": case.get("fail_write"), "fail_close": case.get("fail_close"), "crash_points": len(log)}
    return {"violation": viol, "digest": common.digest_of(log), "stats": dict(stats), "nontrivial": nontriv,
            "sim_time": float(len(log)), "sample": sample}

def fixup(case):
    if case["mode"] != "crash":
        return case
    # keep async brackets balanced after shrinking
    depth = 0
    ops = []
    for op in case["ops"]:
        if op[0] == "async_begin":
            if depth: continue
            depth += 1
        elif op[0] == "async_end":
            if not depth: continue
            depth -= 1
        elif op[0] == "restart" and depth:
            continue
        ops.append(op)
    while depth:
        ops.append(["async_end"]); depth -= 1
    case["ops"] = ops
    return case
