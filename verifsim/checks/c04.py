"""C04 Package graph caches are transparent.

Model-based history simulation with a stat-clock seam.  A project directory
with its persistent caches (.bob-cache.sqlite3 YAML cache, .bob-packages.pickle
package cache, .bob-tree.sqlite3 query cache) lives across a history of recipe /
class / default.yaml / source edits, reverts and changing -D overrides; the
simulator owns the stat clock (fresh mtime for every rewritten file, sometimes
jumping backwards).  After every step the package graph is dumped twice through
the Python API:
  warm -- in the project directory, caches as left by history, Bob's own
          wrong-reuse assertion (DEBUG pkgck) enabled in a second warm pass;
  cold -- in a copy without any .bob-* file and with the in-memory package memo
          disabled (PackageMatcher.matches always False).
The dumps (every package *path* from the root: names, the three steps with
Variant-Id, scripts, environment, tools with path/libs/provider, argument ids,
meta environment) and the answers of fixed path queries must be identical.
"""

import os

from .. import common, projgen

PROPERTY = "C04"
LEVEL = "exploration"
RULE = ("case = generated project rich in shared sub-recipes reached under differing environments/tools (diamonds, "
        "dependency environments, conditional dependencies, substituted values, forwarded tools) + history of edits, "
        "reverts, clock jumps and -D overrides with a graph dump after each; non-trivial = the in-memory memo reused at "
        "least one package in the warm run AND a persisted cache was hit at least once in the history; distinct = digest "
        "of the dump sequence")
COMPONENTS = {"real": ["bob.input.RecipeSet.parse/generatePackages, Recipe.prepare memo (PackageMatcher), YamlCache, PackagePickler",
                       "bob.pathspec PackageSet queries incl. .bob-tree.sqlite3"],
              "stub": ["stat clock of project files", "name formatter (pure function of step)"],
              "not_exercised": ["layers", "plugins"]}
ASSUMPTIONS = ["every file modification changes the file's stat data (fresh mtime, or at least ctime / inode)"]
SHRINK = ["steps"]

QUERIES = ["root", "//*", "root/*", "//r1", "/root//r2", "//*/r3", "root//*[\"${VA:-}\" == \"x\"]", "//r2/*"]

def plan(tier):
    if tier == "thorough":
        return {"cases": 4000, "timeout": 400, "wall_budget": 1500, "recheck": 6, "nproc": 8}
    return {"cases": 120, "timeout": 300, "wall_budget": 90, "recheck": 3, "nproc": 8}

def _memo_shape(rng):
    """Projects built around the in-memory memo: leaves that consume a variable, chains of
    intermediate recipes above them that do not read it themselves, and wrappers that reach
    leaves and intermediates in a seeded order under few distinct values of that variable --
    so that a package is served from the memo while an enclosing recipe is being calculated
    and the enclosing recipe is reached again under another value."""
    recipes = {}
    order = ["root"]
    x, y = rng.sample(projgen.VARPOOL, 2)
    leaves = []
    for i in range(rng.choice([1, 1, 2])):
        n = "l%d" % i
        r = projgen._leaf(rng)
        r[rng.choice(["buildVars", "packageVars"])] = [x] if rng.random() < 0.7 else [x, y]
        recipes[n] = r
        leaves.append(n)
    targets = list(leaves)
    mids = []
    for i in range(rng.choice([1, 2, 3])):
        n = "m%d" % i
        r = projgen._leaf(rng)
        below = rng.choice(targets)
        r["depends"] = [{"name": below, "use": ["result", "deps"]}]
        if rng.random() < 0.25:
            r["depends"].append({"name": rng.choice(leaves), "use": ["result", "deps"]})
            if r["depends"][1]["name"] == below:
                r["depends"].pop()
        if rng.random() < 0.2:
            r["buildVars"] = [y]
        recipes[n] = r
        mids.append(n)
        targets.append(n)
    wrappers = []
    for i in range(rng.choice([4, 5, 6, 7])):
        n = "p%d" % i
        r = projgen._leaf(rng)
        env = {x: rng.choice(["1", "2"])}
        if rng.random() < 0.3:
            env[y] = rng.choice(["1", "2"])
        # the first wrapper usually reaches a leaf directly: it is in the memo before any chain is
        tgt = rng.choice(leaves) if (i == 0 and rng.random() < 0.7) else rng.choice(targets)
        r["depends"] = [{"name": tgt, "use": ["result", "deps"], "environment": env}]
        recipes[n] = r
        wrappers.append(n)
    root = projgen._leaf(rng)
    root["depends"] = [{"name": n, "use": ["result", "deps"]} for n in wrappers]
    recipes["root"] = root
    order += wrappers + list(reversed(mids)) + leaves
    feats = ["memo-shape"]
    if rng.random() < 0.5:
        # an optional tool: the leaves ask whether it is defined; its provider is forwarded by root
        # somewhere in the middle of the dependency list, so the same recipes are reached without
        # and with the tool
        z = rng.choice([v for v in projgen.VARPOOL if v not in (x, y)])
        for n in leaves:
            recipes[n]["environment"][z] = "$(is-tool-defined,toolO)"
            recipes[n]["packageVars"] = sorted(set(recipes[n]["packageVars"]) | {z})
        tp = projgen._leaf(rng)
        tp["provideTools"] = {"toolO": {"path": ".", "libs": []}}
        recipes["tp"] = tp
        root["depends"].insert(rng.randint(1, len(root["depends"]) - 1), {"name": "tp", "use": ["tools"], "forward": True})
        order.append("tp")
        feats.append("optional-tool")
    return {"recipes": recipes, "classes": {}, "default_env": {}, "sources": {}, "order": order,
            "features": feats}

def gen_case(rng, tier, index):
    if index % 3 == 2:
        model = _memo_shape(rng)
        steps = [{"defines": {}}]
        hist = [model]
        cur = model
        for _ in range(rng.choice([0, 1, 2])):
            st = {"defines": {}}
            e = projgen.gen_edit(rng, cur, hist, ["dep_env", "dep_reorder", "var_list", "dep_add", "salt"])
            if e is not None:
                st["edit"] = e
                cur = projgen.apply_edit(cur, e, hist)
                hist.append(cur)
            steps.append(st)
        return {"model": model, "steps": steps}
    feats = {"vars", "depenv", "diamond"} | set(rng.sample(["tools", "provideVars", "classes", "forward", "provideDeps", "ifdeps",
                                                            "substenv", "checkoutscript", "import", "weak", "nobuild",
                                                            "inhtools", "inhtools", "sandbox", "ifdeps"], rng.randint(2, 7)))
    model = projgen.gen_valid_project(rng, nmin=4, nmax=8, features=feats)
    if index % 4 == 1:
        # a recipe that hands a tool on under another name, reached under two providers of that tool
        projgen.add_tool_remap(rng, model)
    steps = [{"defines": {}}]
    hist = [model]
    cur = model
    for _ in range(rng.choice([2, 4, 6, 8])):
        st = {"defines": {}}
        r = rng.random()
        if r < 0.7:
            e = projgen.gen_edit(rng, cur, hist)
            if e is not None:
                st["edit"] = e
                cur = projgen.apply_edit(cur, e, hist)
                hist.append(cur)
        if "edit" not in st and rng.random() < 0.5:
            # an edit that keeps size and mtime of the file (in-place rewrite with restored time stamp,
            # replacement by an equally sized file): only ctime / inode tell that it changed
            names = [n for n in cur["order"] if cur["recipes"][n]["build"]]
            if names:
                n = rng.choice(names)
                which = rng.choice(["build", "package"])
                old = cur["recipes"][n]["salt"][which]
                new = "".join(rng.choice("0123456789abcdef") for _ in old)
                if new != old:
                    e = {"kind": "salt", "recipe": n, "step": which, "value": new}
                    st["edit"] = e
                    st["keep_stat"] = True
                    cur = projgen.apply_edit(cur, e, hist)
                    hist.append(cur)
        if rng.random() < 0.35:
            st["defines"] = {rng.choice(projgen.VARPOOL): rng.choice(["x", "d1", "q%d" % rng.randrange(5)])}
        if rng.random() < 0.2:
            st["clockjump"] = rng.choice([-100000, -5, 3600])
        if "sandbox" in feats and rng.random() < 0.45:
            # the same project directory (and its caches) is used with and without --sandbox
            st["sandbox"] = True
        steps.append(st)
    return {"model": model, "steps": steps}

# ---------------------------------------------------------------------------

def _dump(cwd, defines, cold, pkgck, queries, sandbox=False):
    os.chdir(cwd)
    import bob
    import bob.input as I
    from bob.tty import setVerbosity
    from bob.errors import BobError
    setVerbosity(-2)
    reused = [0]
    if cold:
        I.PackageMatcher.matches = lambda self, *a, **kw: False
    else:
        orig = I.PackageMatcher.matches
        def counting(self, *a, **kw):
            r = orig(self, *a, **kw)
            if r:
                reused[0] += 1
            return r
        I.PackageMatcher.matches = counting
    if pkgck:
        bob.DEBUG["pkgck"] = True
    cache_hit = os.path.exists(".bob-packages.pickle")
    try:
        recipes = I.RecipeSet()
        recipes.parse(dict(defines))
        fmt = lambda step, props: os.path.join("ws", step.getLabel(), step.getPackage().getRecipe().getPackageName().replace("::", "/"))
        packages = recipes.generatePackages(fmt, bool(sandbox))
        root = packages.getRootPackage()
        out = {}
        def step_dump(s):
            if not s.isValid():
                return None
            return {"vid": s.getVariantId().hex(), "script": s.getScript(), "digestScript": s.getDigestScript(),
                    "env": dict(s.getEnv()), "ws": s.getWorkspacePath(),
                    "tools": {n: [t.getPath(), list(t.getLibs()), t.getStep().getVariantId().hex()] for n, t in s.getTools().items()},
                    "sandbox": s.getSandbox() is not None,
                    "args": [a.getVariantId().hex() if a.isValid() else None for a in s.getArguments()]}
        count = [0]
        def walk(pkg, path):
            count[0] += 1
            if count[0] > 400:
                return
            key = "/".join(path)
            out[key] = {"name": pkg.getName(), "stack": list(pkg.getStack()), "metaEnv": dict(pkg.getMetaEnv()),
                        "src": step_dump(pkg.getCheckoutStep()), "build": step_dump(pkg.getBuildStep()),
                        "dist": step_dump(pkg.getPackageStep())}
            for d in pkg.getDirectDepSteps():
                p = d.getPackage()
                walk(p, path + [p.getName()])
        for d in root.getDirectDepSteps():
            p = d.getPackage()
            walk(p, [p.getName()])
        qres = {}
        for q in queries:
            try:
                qres[q] = sorted("/".join(p.getStack()) for p in packages.queryPackagePath(q))
            except BobError as e:
                qres[q] = "error: " + str(e)[:80]
        return {"ok": True, "graph": out, "queries": qres, "reused": reused[0], "pickle_present": cache_hit}
    except BobError as e:
        return {"ok": False, "error": str(e)[:300]}

def _restore_mtime(p, old):
    """Put the old mtime back; make sure ctime or inode still tell the files apart (the
    contract: every modification changes the file's stat data)."""
    import time
    for _ in range(200):
        os.utime(p, ns=(old.st_atime_ns, old.st_mtime_ns))
        st = os.lstat(p)
        if (st.st_ctime_ns, st.st_ino) != (old.st_ctime_ns, old.st_ino):
            return
        time.sleep(0.002)
    raise common.HarnessError("cannot make stat data of %s differ" % p)

def _first_diff(a, b, prefix=""):
    if type(a) != type(b):
        return "%s: %r != %r" % (prefix, a, b)
    if isinstance(a, dict):
        for k in sorted(set(a) | set(b), key=str):
            if k not in a or k not in b:
                return "%s/%s: present only in %s" % (prefix, k, "warm" if k in a else "cold")
            d = _first_diff(a[k], b[k], prefix + "/" + str(k))
            if d:
                return d
        return None
    if isinstance(a, list):
        if len(a) != len(b):
            return "%s: lengths %d != %d" % (prefix, len(a), len(b))
        for i, (x, y) in enumerate(zip(a, b)):
            d = _first_diff(x, y, "%s[%d]" % (prefix, i))
            if d:
                return d
        return None
    if a != b:
        return "%s: %r != %r" % (prefix, str(a)[:80], str(b)[:80])
    return None

def run_case(case):
    top = common.scratch_dir("c04-%d" % os.getpid())
    stats = common.Counter()
    log = []
    viol = None
    try:
        proj = os.path.join(top, "warm", "proj")
        os.makedirs(proj)
        clock = projgen.StampClock()
        model = case["model"]
        hist = [model]
        files = projgen.materialise(model, proj, clock)
        for n, st in enumerate(case["steps"]):
            if st.get("clockjump"):
                clock.t += st["clockjump"]
                clock.t = max(clock.t, 1000)
            if st.get("edit"):
                model = projgen.apply_edit(model, st["edit"], hist)
                hist.append(model)
                before = {}
                if st.get("keep_stat"):
                    for p in files:
                        try:
                            before[p] = os.lstat(os.path.join(proj, p))
                        except OSError:
                            pass
                old_files = files
                files = projgen.materialise(model, proj, clock, files)
                stats.inc("edits")
                if st.get("keep_stat"):
                    for p, content in files.items():
                        if p in before and old_files.get(p) != content and len(old_files.get(p, "")) == len(content):
                            _restore_mtime(os.path.join(proj, p), before[p])
                            stats.inc("edits_keeping_size_and_mtime")
            defines = st.get("defines", {})
            cold_dir = os.path.join(top, "cold%d" % n, "proj")
            os.makedirs(cold_dir)
            projgen.materialise(model, cold_dir)
            sb = bool(st.get("sandbox"))
            if sb:
                stats.inc("dumps_with_sandbox")
            w = common.run_forked(_dump, proj, defines, False, False, QUERIES, sb, timeout=120)
            w2 = common.run_forked(_dump, proj, defines, False, True, QUERIES, sb, timeout=120)
            c = common.run_forked(_dump, cold_dir, defines, True, False, QUERIES, sb, timeout=120)
            common.rmtree(os.path.join(top, "cold%d" % n))
            stats.inc("dumps")
            for name, r in (("warm", w), ("warm-pkgck", w2), ("cold", c)):
                if r.status != "ok":
                    viol = {"kind": "graph-computation-crashed",
                            "detail": "step %d %s: %s" % (n, name, (r.value or "")[-700:])}
                    break
            if viol:
                break
            w, w2, c = w.value, w2.value, c.value
            if not c["ok"]:
                if w["ok"]:
                    viol = {"kind": "warm-accepts-invalid-project", "detail": "step %d: cold: %s" % (n, c["error"])}
                    break
                stats.inc("invalid_project_state")
                log.append((n, "invalid"))
                continue
            if not w["ok"] or not w2["ok"]:
                viol = {"kind": "warm-rejects-valid-project",
                        "detail": "step %d: %s" % (n, (w if not w["ok"] else w2)["error"])}
                break
            stats.inc("memo_reuses", w["reused"])
            if w2["pickle_present"]:
                stats.inc("package_cache_present")
            stats.inc("package_paths", len(c["graph"]))
            d = _first_diff(w["graph"], c["graph"]) or _first_diff(w2["graph"], c["graph"])
            if d:
                viol = {"kind": "warm-graph-differs-from-cold", "detail": "step %d (edit %s, -D %s): %s" % (n, st.get("edit"), defines, d)}
                break
            d = _first_diff(w["queries"], c["queries"]) or _first_diff(w2["queries"], c["queries"])
            if d:
                viol = {"kind": "warm-query-differs-from-cold", "detail": "step %d: %s" % (n, d)}
                break
            log.append((n, common.digest_of(c["graph"]), len(c["graph"])))
    finally:
        common.rmtree(top)
    return {"violation": viol, "digest": common.digest_of(log), "stats": dict(stats),
            "nontrivial": stats.get("memo_reuses", 0) > 0 and stats.get("package_cache_present", 0) > 0,
            "sim_time": float(len(log)),
            "sample": {"features": case["model"].get("features"), "steps": case["steps"][:6], "log": log[:6]}}
