"""C08 Artifact packing is lossless, corruption is rejected, extraction is confined.

The archive is treated as a faulty disk / hostile peer: the byte stream that
the real download path (`BaseArchive._downloadPackage` -> `TarHelper._extract`)
reads, followed by the builder's post-download verification (audit present,
recorded result hash == hash of the extracted workspace), goes through a fault
layer.

 A  round trip of generated trees (files, empty dirs, symlinks incl. dangling,
    hard links, modes incl. setuid/sticky, unicode / shell-special names): the
    extracted tree has the same canonical serialisation *and* the same Bob hash,
    the audit bytes are unchanged;
 B  faults on the stored bytes: truncation (every length in thorough, sampled in
    quick), bit flips, zero-filled blocks, short reads, EIO at read k.  The
    artifact is rejected (download fails / verification fails) -- or, if it is
    accepted, the extracted tree is identical to the original;
 C  hostile archives built with tarfile directly (.., absolute names, symlink
    then write through it, hard links to the outside / to meta, unknown
    top-level entries, missing audit, wrong pax version, duplicates, mismatching
    audit): never accepted unless the content matches its audit, and a sentinel
    tree around the target is unchanged.
"""

import errno
import gzip
import io
import os
import tarfile

from .. import common, treegen, treecmp

PROPERTY = "C08"
LEVEL = "fault_enumeration"
RULE = ("case = generated tree (round trip) + list of faults on the artifact bytes (truncate@L, flip@bit, zero block, "
        "short reads, EIO@read k; thorough: every truncation length) and/or a hostile archive from a member grammar; "
        "non-trivial = a fault landed inside the artifact and the download path actually ran; distinct = digest of "
        "(tree, fault, outcome)")
COMPONENTS = {"real": ["bob.archive.TarHelper._pack/_extract, BaseArchive._downloadPackage, LocalArchive", "bob.utils._tarExtractFilter",
                       "bob.audit.Audit (create/save/fromFile)", "bob.utils.hashDirectory"],
              "stub": ["the builder's post-download verification is replayed by the harness with the same calls "
                       "(os.path.exists(audit), Audit.fromFile(audit).getArtifact().getResultHash() == hashDirectory(content))",
                       "faulty byte stream: rebinding of bob.archive.open"],
              "not_exercised": ["http/azure transports", "Windows"]}
ASSUMPTIONS = ["SHA-1 directory hashes and gzip CRC-32 are not attacked cryptographically; only accidental corruption and "
               "structurally hostile members are modelled"]
SHRINK = ["faults", "tree"]

BID = bytes([0x42] * 20)

def plan(tier):
    if tier == "thorough":
        return {"cases": 3000, "timeout": 600, "wall_budget": 1500, "recheck": 6, "batch": 4}
    return {"cases": 260, "timeout": 300, "wall_budget": 60, "recheck": 3, "batch": 4}

HOSTILE = ["dotdot", "absolute", "symlink-write", "abs-symlink-write", "hardlink-outside-overwrite", "hardlink-noprefix",
           "hardlink-meta", "unknown-toplevel", "missing-audit", "wrong-vsn", "no-vsn", "duplicate", "audit-mismatch",
           "content-symlink", "dotdot-dir", "symlink-chain", "hardlink-abs", "hardlink-via-symlink", "hardlink-to-symlink",
           # siblings of the target whose path has the target's path as a string prefix
           "sibling-prefix", "sibling-prefix-overwrite", "sibling-prefix-new", "sibling-prefix-symlink"]

def gen_case(rng, tier, index):
    model = treegen.TreeModel()
    tree = [op for op in treegen.gen_ops(rng, model, rng.choice([0, 1, 4, 8, 14]), hash_prob=0.0, specials=False, allow_scm=False)
            if op[0] != "clockjump"]
    case = {"tree": tree, "faults": []}
    r = rng.random()
    if r < 0.45:
        for _ in range(rng.choice([4, 8, 16])):
            k = rng.choice(["truncate", "truncate", "flip", "flip", "zero", "short", "eio"])
            case["faults"].append({"kind": k, "pos": rng.random(), "n": rng.randrange(1, 9), "len": rng.choice([1, 16, 512, 4096])})
    elif r < 0.55:
        case["all_truncations"] = True
        case["stride"] = 1 if tier == "thorough" else rng.choice([7, 13, 29])
    elif r < 0.9:
        case["hostile"] = [rng.choice(HOSTILE) for _ in range(rng.choice([1, 2, 3]))]
    return case

def directed_cases(tier):
    return [{"tree": [["mkfile", "a", "t1", 64, 0o644]], "faults": [], "hostile": [h]} for h in HOSTILE]

# ---------------------------------------------------------------------------

def _make_audit(path, content_dir):
    from bob.audit import Audit
    from bob.utils import hashDirectory
    import datetime
    h = hashDirectory(content_dir)
    a = Audit.create(bytes([1] * 20), BID, h)
    # simulated clock: the build date is part of the record (and of the artifact size)
    a._Audit__artifact.reset(bytes([1] * 20), BID, h, datetime.datetime(2020, 1, 1, tzinfo=datetime.timezone.utc))
    a.addDefine("recipe", "r"); a.addDefine("package", "p"); a.addDefine("step", "dist")
    a.save(path)
    try:
        os.unlink(path + ".pickle")
    except OSError:
        pass
    return h

def _art_path(arch):
    h = BID.hex() + "-1"
    return os.path.join(arch, h[0:2], h[2:4], h[4:] + ".tgz")

class _FaultyFile:
    """Read-only file object with short reads / EIO."""
    def __init__(self, f, fault):
        self._f = f
        self._fault = fault
        self._n = 0
    def read(self, size=-1):
        self._n += 1
        if self._fault["kind"] == "eio" and self._n == self._fault["n"]:
            raise OSError(errno.EIO, "Input/output error [injected]")
        if self._fault["kind"] == "short" and size is not None and size > 1:
            size = max(1, min(size, self._fault["n"] * 37))
        return self._f.read(size)
    def close(self):
        self._f.close()
    def __getattr__(self, k):
        return getattr(self._f, k)

def _download(arch, dest, fault=None):
    """Run the real download + the builder's verification.  Returns
    ('accepted'|'rejected'|'error', info)."""
    import bob.archive as A
    from bob.errors import BuildError, BobError
    from bob.audit import Audit
    from bob.utils import hashDirectory
    audit = os.path.join(dest, "audit.json.gz")
    content = os.path.join(dest, "workspace")
    ar = A.LocalArchive({"backend": "file", "path": arch})
    ar.wantDownloadLocal(True)
    real_open = open
    if fault is not None and fault["kind"] in ("short", "eio"):
        def f_open(name, mode="r", *a, **kw):
            f = real_open(name, mode, *a, **kw)
            if "b" in mode and "r" in mode and str(name).endswith(".tgz"):
                return _FaultyFile(f, fault)
            return f
        A.open = f_open
    try:
        try:
            ret, msg, kind = ar._downloadPackage(BID, ".tgz", audit, content, [], "ws")
        except BuildError as e:
            return "rejected", "BuildError: " + str(e.slogan)[:120]
        except Exception as e:  # noqa
            return "error", "%s: %s" % (type(e).__name__, str(e)[:120])
        if not ret:
            return "rejected", "not downloaded: %s" % msg
        # builder._downloadPackage, lines after archive.downloadPackage()
        if not os.path.exists(audit):
            return "rejected", "audit trail missing"
        try:
            if Audit.fromFile(audit).getArtifact().getResultHash() != hashDirectory(content):
                return "rejected", "content hash does not match audit trail"
        except BobError as e:
            return "rejected", "audit unreadable: " + str(e)[:100]
        except Exception as e:  # noqa
            return "error", "verification %s: %s" % (type(e).__name__, str(e)[:120])
        return "accepted", ""
    finally:
        A.__dict__.pop("open", None)

def _hostile_archive(kinds, good_members, outside, content_src, audit_bytes, mismatch_audit):
    """Build a hostile .tgz; returns bytes."""
    buf = io.BytesIO()
    pax = {"bob-archive-vsn": "1"}
    if "wrong-vsn" in kinds:
        pax = {"bob-archive-vsn": "2"}
    if "no-vsn" in kinds:
        pax = {}
    with gzip.GzipFile(fileobj=buf, mode="wb", mtime=0) as gz:
        with tarfile.open(fileobj=gz, mode="w", format=tarfile.PAX_FORMAT, pax_headers=pax) as tf:
            def add_file(name, data, mode=0o644):
                ti = tarfile.TarInfo(name)
                ti.size = len(data); ti.mode = mode
                tf.addfile(ti, io.BytesIO(data))
            def add_link(name, target, hard=False):
                ti = tarfile.TarInfo(name)
                ti.type = tarfile.LNKTYPE if hard else tarfile.SYMTYPE
                ti.linkname = target
                tf.addfile(ti)
            def add_dir(name):
                ti = tarfile.TarInfo(name); ti.type = tarfile.DIRTYPE; ti.mode = 0o755
                tf.addfile(ti)
            if "missing-audit" not in kinds:
                add_file("meta/audit.json.gz", mismatch_audit if "audit-mismatch" in kinds else audit_bytes)
            add_dir("content")
            add_file("content/a", b"payload-a\n")
            for k in kinds:
                if k == "dotdot":
                    add_file("content/../../../outside/evil-dotdot", b"evil")
                elif k == "dotdot-dir":
                    add_dir("content/../../../outside/evil-dir")
                elif k == "absolute":
                    add_file(os.path.join(outside, "evil-abs"), b"evil")
                elif k == "symlink-write":
                    add_link("content/lnk", "../../../outside")
                    add_file("content/lnk/evil-through-symlink", b"evil")
                elif k == "abs-symlink-write":
                    add_link("content/alnk", outside)
                    add_file("content/alnk/evil-through-abs-symlink", b"evil")
                elif k == "symlink-chain":
                    add_link("content/l1", "l2")
                    add_link("content/l2", "../../../outside")
                    add_file("content/l1/evil-chain", b"evil")
                elif k == "hardlink-outside-overwrite":
                    add_link("content/h", "content/../../../outside/victim.txt", hard=True)
                    add_file("content/h", b"overwritten-through-hardlink")
                elif k == "hardlink-abs":
                    add_link("content/habs", "content/" + os.path.join(outside, "victim.txt"), hard=True)
                    add_file("content/habs", b"overwritten-through-abs-hardlink")
                elif k == "hardlink-via-symlink":
                    add_link("content/sl", "../../../outside")
                    add_link("content/h4", "content/sl/victim.txt", hard=True)
                    add_file("content/h4", b"overwritten-through-symlinked-hardlink")
                elif k == "hardlink-to-symlink":
                    add_link("content/s5", "../../../outside/victim.txt")
                    add_link("content/h5", "content/s5", hard=True)
                    add_file("content/h5", b"overwritten-through-hardlinked-symlink")
                elif k == "hardlink-noprefix":
                    add_link("content/h2", "meta/audit.json.gz", hard=True)
                elif k == "hardlink-meta":
                    add_link("content/h3", "content/../audit.json.gz", hard=True)
                    add_file("content/h3", b"audit-overwritten")
                elif k == "unknown-toplevel":
                    add_file("evil-toplevel.txt", b"evil")
                elif k == "duplicate":
                    add_file("content/a", b"second-version-of-a\n")
                elif k == "sibling-prefix":
                    add_file("content/../workspace.old/evil", b"evil")
                elif k == "sibling-prefix-overwrite":
                    add_file("content/../workspace.sh", b"overwritten")
                elif k == "sibling-prefix-new":
                    add_file("content/../workspace_evil/evil", b"evil")
                elif k == "sibling-prefix-symlink":
                    add_link("content/sp", "../workspace.old")
                    add_file("content/sp/victim.txt", b"overwritten-through-sibling-symlink")
                elif k == "content-symlink":
                    add_link("content", outside)
                    add_file("content/evil-content-symlink", b"evil")
    return buf.getvalue()

def _apply_fault(raw, f):
    n = len(raw)
    if n == 0:
        return raw, False
    pos = min(n - 1, int(f["pos"] * n))
    if f["kind"] == "truncate":
        return raw[:pos], True
    if f["kind"] == "flip":
        return raw[:pos] + bytes([raw[pos] ^ (1 << (f["n"] % 8))]) + raw[pos + 1:], True
    if f["kind"] == "zero":
        ln = min(f["len"], n - pos)
        new = raw[:pos] + b"\0" * ln + raw[pos + ln:]
        return new, new != raw
    return raw, True

def run_case(case):
    from bob.utils import hashDirectory
    import bob.archive as A
    top = common.scratch_case_dir("c08")
    common.pin_process_nondeterminism(1)
    stats = common.Counter()
    log = []
    viol = None
    landed = False
    try:
        box = os.path.join(top, "box")
        src = os.path.join(box, "src", "workspace")
        os.makedirs(src)
        clock = treegen.SimClock()
        for op in case["tree"]:
            treegen.apply_op(src, op, clock)
        src_audit = os.path.join(box, "src", "audit.json.gz")
        _make_audit(src_audit, src)
        audit_bytes = common.read_file(src_audit)
        # simulated stat clock: tar headers carry the mtimes of directories and of the audit file
        for r_, ds_, fs_ in os.walk(os.path.join(box, "src")):
            for n_ in ds_ + ["."]:
                os.utime(os.path.join(r_, n_), (1_500_000_000, 1_500_000_000))
        os.utime(src_audit, (1_500_000_000, 1_500_000_000))
        canon_src = treecmp.canon(src)
        hash_src = hashDirectory(src)
        arch = os.path.join(box, "arch")
        ar = A.LocalArchive({"backend": "file", "path": arch})
        ar.wantUploadLocal(True)
        msg, kind = ar._uploadPackage(BID, ".tgz", src_audit, src)
        art = _art_path(arch)
        raw = common.read_file(art)
        outside = os.path.join(box, "outside")
        os.makedirs(outside)
        common.write_file(os.path.join(outside, "victim.txt"), "precious\n")
        n_dest = [0]

        def fresh_dest():
            n_dest[0] += 1
            d = os.path.join(box, "dl", "%d" % n_dest[0])
            os.makedirs(d)
            return d

        def sentinel():
            return treecmp.canon(box, skip=("dl", "arch")), sorted(os.listdir(os.path.join(box, "dl")))

        # A: round trip
        d = fresh_dest()
        before = sentinel()
        st, info = _download(arch, d)
        stats.inc("roundtrips")
        if st != "accepted":
            viol = {"kind": "roundtrip-rejected", "detail": "intact artifact: %s %s; tree=%s" % (st, info, treecmp.describe(canon_src, 8))}
        else:
            got = treecmp.canon(os.path.join(d, "workspace"))
            if got != canon_src:
                viol = {"kind": "roundtrip-not-lossless", "detail": str(treecmp.diff(canon_src, got, 6))}
            elif hashDirectory(os.path.join(d, "workspace")) != hash_src:
                viol = {"kind": "roundtrip-hash-differs", "detail": "canonical trees equal but directory hashes differ"}
            elif common.read_file(os.path.join(d, "audit.json.gz")) != audit_bytes:
                viol = {"kind": "roundtrip-audit-changed", "detail": ""}
        log.append(("roundtrip", st, len(canon_src)))

        # B: faults on the bytes
        faults = list(case.get("faults", []))
        if case.get("all_truncations"):
            faults = [{"kind": "truncate-at", "at": L} for L in range(0, len(raw), case.get("stride", 1))]
            stats.inc("truncation_sweeps")
        for f in faults:
            if viol:
                break
            if f["kind"] == "truncate-at":
                bad, changed = raw[:f["at"]], True
            else:
                bad, changed = _apply_fault(raw, f)
            if not changed:
                continue
            common.write_file(art, bad)
            d = fresh_dest()
            st, info = _download(arch, d, f)
            stats.inc("fault_" + f["kind"])
            stats.inc("outcome_" + st)
            landed = True
            log.append((f["kind"], f.get("at", f.get("pos")), st))
            if st == "accepted":
                got = treecmp.canon(os.path.join(d, "workspace"))
                if got != canon_src:
                    viol = {"kind": "corrupt-artifact-accepted",
                            "detail": "fault %s: download and verification accepted it, extracted tree differs: %s" % (f, treecmp.diff(canon_src, got, 5))}
                else:
                    stats.inc("probe_harmless_fault_accepted")
            elif st == "error":
                stats.inc("probe_non_builderror_exception")
            if sentinel() != (before[0], sorted(os.listdir(os.path.join(box, "dl")))) and viol is None:
                viol = {"kind": "extraction-escaped-target", "detail": "fault %s modified files outside the target" % (f,)}
        common.write_file(art, raw)

        # C: hostile members
        if case.get("hostile") and viol is None:
            other = os.path.join(box, "other-audit.json.gz")
            os.makedirs(os.path.join(box, "other-ws"))
            common.write_file(os.path.join(box, "other-ws", "zzz"), "different content\n")
            _make_audit(other, os.path.join(box, "other-ws"))
            mismatch = common.read_file(other)
            hostile = _hostile_archive(case["hostile"], None, outside, src, audit_bytes, mismatch)
            before = sentinel()
            common.write_file(art, hostile)
            d = fresh_dest()
            # neighbours of the target directory inside the package's own directory
            os.makedirs(os.path.join(d, "workspace.old"))
            common.write_file(os.path.join(d, "workspace.old", "victim.txt"), "precious\n")
            common.write_file(os.path.join(d, "workspace.sh"), "#!/bin/sh\n")
            near_before = treecmp.canon(d, skip=("workspace", "audit.json.gz", "audit.json.gz.pickle"))
            st, info = _download(arch, d)
            near_after = treecmp.canon(d, skip=("workspace", "audit.json.gz", "audit.json.gz.pickle"))
            landed = True
            for h in case["hostile"]:
                stats.inc("hostile_" + h)
            stats.inc("outcome_" + st)
            log.append(("hostile", case["hostile"], st))
            common.write_file(art, raw)
            after = sentinel()
            if near_after != near_before:
                viol = {"kind": "extraction-escaped-target",
                        "detail": "hostile members %s (%s: %s) changed the neighbours of the target workspace: %s" % (
                            case["hostile"], st, info, treecmp.diff(near_before, near_after, 6))}
            elif after[0] != before[0]:
                viol = {"kind": "extraction-escaped-target",
                        "detail": "hostile members %s (%s: %s) changed the tree outside the target: %s" % (
                            case["hostile"], st, info, treecmp.diff(before[0], after[0], 6))}
            elif st == "accepted":
                # accepted is only fine if content matches its own audit (verification passed) and
                # nothing of the grammar that must be refused slipped through
                must_refuse = {"unknown-toplevel", "missing-audit", "wrong-vsn", "no-vsn", "audit-mismatch", "hardlink-noprefix"}
                bad = sorted(must_refuse & set(case["hostile"]))
                if bad:
                    viol = {"kind": "invalid-artifact-accepted", "detail": "artifact with %s was accepted as package result" % bad}
    finally:
        A.__dict__.pop("open", None)
        common.rmtree(top)
    return {"violation": viol, "digest": common.digest_of(log), "stats": dict(stats), "nontrivial": landed,
            "sim_time": float(len(log)),
            "sample": {"tree": case["tree"][:6], "faults": case.get("faults", [])[:4], "hostile": case.get("hostile"),
                       "all_truncations": case.get("all_truncations", False), "log": log[:10]}}
