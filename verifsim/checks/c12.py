"""C12 Checkouts converge to the recipe and never destroy user work.

Engine A + a git world.  Actors take turns in one history:
  * upstream maintainer: commits, new branches, tags, force-pushes in local bare
    repositories;
  * recipe author: edits the SCM specification of a package (branch / tag /
    commit, target directory, a second nested SCM added/removed, git <-> import);
  * user: dirty tracked file, untracked file, local commit, local branch with a
    commit, detached HEAD with a commit -- each introduces a file with a
    globally unique marker;
  * Bob: `bob dev`, `bob dev --clean-checkout`, `bob clean -s`, `bob clean
    --attic` (never with -f), all under the simulated loop with real git.
Faults: upstream temporarily unreachable (repository renamed away, later
restored).

Oracle 1 (convergence): after every successful `bob dev`, each source workspace
the user never touched equals (tree without .git) what a clean Bob checkout of
the current specification produces in an empty project at that moment.
Oracle 2 (no loss): after every Bob invocation, successful or not, every user
marker is still found under the project: in a working-tree file of a workspace
or attic directory, or in the history reachable from any ref (branches, tags,
remotes, stash, HEAD) of the repositories found there.
"""

import os
import subprocess

from .. import common, loopsim, buildsim, bobq, projgen, treecmp

PROPERTY = "C12"
LEVEL = "exploration"
RULE = ("case = git world (1..2 upstream repositories with branches/tags) + history interleaving upstream changes, SCM "
        "spec edits, user edits with unique markers and Bob invocations (dev, dev --clean-checkout, clean -s, clean "
        "--attic) + optional upstream outage; non-trivial = at least one attic move or inline switch happened while a "
        "user marker existed; distinct = digest of the per-invocation (rc, attic/switch/skip) outcome list")
COMPONENTS = {"real": ["bob dev/clean CLI", "builder checkout logic (switch/attic)", "scm.git (invoke/switch/status)", "scm.imp",
                       "real git on local bare repositories"],
              "stub": ["event loop (SimLoop): git commands run synchronously at seeded virtual instants, retries sleep in virtual time"],
              "not_exercised": ["svn/cvs/url SCMs", "git submodules", "network transports", "forced (-f) clean"]}
ASSUMPTIONS = ["git itself does not lose reachable commits", "the user performs no destructive git commands himself"]
SHRINK = ["ops", "hist"]

def plan(tier):
    if tier == "thorough":
        return {"cases": 1500, "timeout": 900, "wall_budget": 1700, "recheck": 4, "nproc": 6}
    return {"cases": 40, "timeout": 600, "wall_budget": 200, "recheck": 2, "nproc": 6}

FILES = ["a.txt", "b.txt", "dir/c.txt"]

def gen_case(rng, tier, index):
    if index % 6 == 5:
        return _gen_url_case(rng)
    nrepo = rng.choice([1, 2])
    spec = {"scms": [{"type": "git", "repo": 0, "branch": "master", "dir": rng.choice([".", ".", "sub"])}]}
    ops = [["bob", "dev", rng.getrandbits(32)]]
    uid = [0]
    def marker():
        uid[0] += 1
        return "MARK%dX%x" % (uid[0], rng.getrandbits(40))
    for _ in range(rng.choice([4, 6, 8, 10, 12])):
        r = rng.random()
        if r < 0.22:
            k = rng.choice(["commit", "commit", "branch", "tag", "force"])
            ops.append(["up", k, rng.randrange(nrepo), rng.choice(["master", "dev"]), rng.choice(FILES),
                        "up-%x" % rng.getrandbits(24), "t%d" % rng.randrange(3)])
        elif r < 0.42:
            k = rng.choice(["branch", "branch", "tag", "commit", "commit_on_branch", "commit_on_branch", "tag_on_branch",
                            "dir", "add2", "add2imp", "rm2", "toimport", "togit", "rebase", "both_branch", "both_branch"])
            ops.append(["spec", k, rng.choice(["master", "dev"]), "t%d" % rng.randrange(3), rng.choice([".", "sub", "sub2"]),
                        rng.randrange(nrepo)])
        elif r < 0.67:
            k = rng.choice(["dirty", "untracked", "commit", "branch", "detach", "sidebranch", "stash", "untracked_dir"])
            ops.append(["user", k, rng.randrange(2), rng.choice(FILES), marker()])
        else:
            k = rng.choice(["dev", "dev", "dev", "dev-clean-checkout", "clean-s", "clean-attic"])
            ops.append(["bob", k, rng.getrandbits(32)])
    ops.append(["bob", "dev", rng.getrandbits(32)])
    case = {"nrepo": nrepo, "spec": spec, "ops": ops, "release": rng.random() < 0.35}
    if rng.random() < 0.2:
        case["outage"] = {"from_op": rng.randrange(1, len(ops)), "len": rng.choice([1, 2, 3])}
    return case

def directed_cases(tier):
    """Scenario shapes that random histories hit rarely: the user works in a
    source workspace, the recipe moves on so that the workspace is switched /
    moved to the attic / becomes unused, then non-forced cleaning runs."""
    out = []
    S = {"branch": ["spec", "branch", "dev", "t0", ".", 0], "tag": ["spec", "tag", "master", "t0", ".", 0],
         "dir": ["spec", "dir", "master", "t0", "sub2", 0], "toimport": ["spec", "toimport", "master", "t0", ".", 0],
         "commit_on_branch": ["spec", "commit_on_branch", "master", "t0", ".", 0],
         "tag_on_branch": ["spec", "tag_on_branch", "master", "t0", ".", 0],
         "commit": ["spec", "commit", "master", "t0", ".", 0]}
    pairs = [("commit", "commit_on_branch"), ("commit", "tag_on_branch"), ("dirty", "branch"), ("untracked", "tag"),
             ("commit", "dir"), ("branch", "toimport"), ("detach", "branch"), ("commit", "branch"), ("untracked", "toimport"),
             ("dirty", "commit_on_branch"), ("branch", "commit"), ("detach", "tag_on_branch"),
             # work that leaves the checkout looking pristine: a commit on a side branch (switched back),
             # a stash; the checkout then goes to the attic / becomes unused and is cleaned non-forced
             ("sidebranch", "toimport"), ("stash", "toimport"), ("sidebranch", "branch"), ("stash", "dir")]
    n = 0
    for release in (False, True):
        for u, sp in pairs:
            n += 1
            out.append({"nrepo": 1, "spec": {"scms": [{"type": "git", "repo": 0, "branch": "master", "dir": "."}]},
                        "release": release, "directed": "user %s then %s then clean" % (u, sp),
                        "ops": [["bob", "dev", n], ["user", u, 0, "a.txt", "MARK%dXd%d" % (n, n)], S[sp],
                                ["bob", "dev", n + 100], ["bob", "clean-s", n + 200], ["bob", "clean-attic", n + 300],
                                ["bob", "dev", n + 400]]})
    # convergence of an untouched workspace over several spec and upstream changes: the branch that
    # is *not* checked out moves upstream while Bob fetches, then the recipe returns to it
    U = lambda k, br, tag="t0": ["up", k, 0, br, "a.txt", "conv-%s-%s" % (k, br), tag]
    B = lambda br: ["spec", "branch", br, "t0", ".", 0]
    conv = [
        [B("dev"), ["bob", "dev", 2], U("commit", "master"), ["bob", "dev", 3], B("master"), ["bob", "dev", 4]],
        [B("dev"), ["bob", "dev", 2], U("commit", "master"), U("commit", "dev"), ["bob", "dev", 3], B("master"), ["bob", "dev", 4],
         B("dev"), ["bob", "dev", 5]],
        [U("tag", "master"), ["spec", "tag", "master", "t0", ".", 0], ["bob", "dev", 2], U("commit", "master"), ["bob", "dev", 3],
         B("master"), ["bob", "dev", 4]],
        [B("dev"), ["bob", "dev", 2], U("commit", "master"), ["bob", "dev", 3], U("commit", "master"), B("master"), ["bob", "dev", 4]],
    ]
    convs = []
    for release in (False, True):
        for i, tail in enumerate(conv):
            convs.append({"nrepo": 1, "spec": {"scms": [{"type": "git", "repo": 0, "branch": "master", "dir": "."}]},
                          "release": release, "directed": "convergence %d" % i, "ops": [["bob", "dev", 1]] + tail})
        # two sibling SCM directories changed by one recipe edit (and back)
        convs.append({"nrepo": 2, "spec": {"scms": [{"type": "git", "repo": 0, "branch": "master", "dir": "sub"}]},
                      "release": release, "directed": "two SCMs changed at once",
                      "ops": [["bob", "dev", 1], ["spec", "add2", "master", "t0", ".", 1], ["bob", "dev", 2],
                              ["spec", "both_branch", "dev", "t0", ".", 0], ["bob", "dev", 3],
                              U("commit", "master"), ["spec", "both_branch", "master", "t0", ".", 0], ["bob", "dev", 4]]})
    for release in (False, True):
        for addk in ("add2", "add2imp"):
            convs.append({"nrepo": 2, "spec": {"scms": [{"type": "git", "repo": 0, "branch": "master", "dir": "."}]},
                          "release": release, "directed": "new SCM over the user's directory (%s), retried" % addk,
                          "ops": [["bob", "dev", 1], ["user", "untracked_dir", 0, "a.txt", "MARK9Xc%d%s" % (release, addk)],
                                  ["spec", addk, "master", "t0", ".", 1], ["bob", "dev", 2], ["bob", "dev", 3], ["bob", "dev", 4]]})
    if tier != "thorough":
        convs = [c for i, c in enumerate(convs) if i < 4 or i % 2 == 0 or "two SCMs" in c["directed"] or "new SCM over" in c["directed"]]
    if tier != "thorough":
        npairs = len(pairs)
        out = out[:6] + out[12:16] + out[npairs:npairs + 2] + out[npairs + 2::3] + out[2 * npairs - 4:]
        seen, uniq = set(), []
        for c in out:
            k = (c["release"], c["directed"])
            if k not in seen:
                seen.add(k)
                uniq.append(c)
        out = uniq
    urls = [{"url": True, "release": rel, "digest": False, "same_name": True, "hist": h,
             "locs": [{"content": "release 1\n", "mtime": 1_500_001_000}, {"content": "release 2\n", "mtime": 1_500_002_000}],
             "directed": "url SCM repointed to an older file of the same name"}
            for rel in (False, True) for h in ([1, 0], [0, 1, 0])]
    return out + convs + (urls if tier == "thorough" else urls[:3])

# ---------------------------------------------------------------------------

class Git:
    def __init__(self, top):
        self.top = top
        self.n = 0
    def run(self, cwd, *args, check=True):
        self.n += 1
        env = dict(loopsim.BASE_ENV)
        t = "2020-01-01T00:%02d:%02dZ" % ((self.n // 60) % 60, self.n % 60)
        env["GIT_AUTHOR_DATE"] = env["GIT_COMMITTER_DATE"] = t
        p = subprocess.run(["git"] + list(args), cwd=cwd, env=env, stdin=subprocess.DEVNULL,
                           stdout=subprocess.PIPE, stderr=subprocess.PIPE)
        if check and p.returncode != 0:
            raise GitError("git %s failed in %s: %s" % (" ".join(args), cwd, p.stderr.decode(errors="replace")[-300:]))
        return p

class GitError(Exception):
    pass

def _setup_upstream(git, top, nrepo):
    repos = []
    for i in range(nrepo):
        bare = os.path.join(top, "up", "repo%d.git" % i)
        work = os.path.join(top, "upwork", "repo%d" % i)
        os.makedirs(work)
        git.run(work, "init", "-q", "-b", "master")
        for f in FILES:
            common.write_file(os.path.join(work, f), "repo%d %s v0\n" % (i, f))
        git.run(work, "add", "-A")
        git.run(work, "commit", "-q", "-m", "initial")
        common.write_file(os.path.join(work, "a.txt"), "repo%d a v1\n" % i)
        git.run(work, "commit", "-q", "-am", "second")
        git.run(work, "tag", "t0")
        # the dev branch differs from master in content from the start
        git.run(work, "checkout", "-q", "-b", "dev")
        common.write_file(os.path.join(work, "dev-only.txt"), "repo%d dev\n" % i)
        git.run(work, "add", "-A")
        git.run(work, "commit", "-q", "-m", "dev branch")
        git.run(work, "checkout", "-q", "master")
        os.makedirs(os.path.dirname(bare), exist_ok=True)
        git.run(top, "clone", "-q", "--bare", work, bare)
        git.run(work, "remote", "add", "origin", bare)
        repos.append({"bare": bare, "work": work})
    return repos

def _recipes(spec, repos, top):
    import yaml
    scms = []
    for s in spec["scms"]:
        if s["type"] == "git":
            d = {"scm": "git", "url": repos[s["repo"]]["bare"], "dir": s["dir"]}
            for k in ("branch", "tag", "commit"):
                if s.get(k):
                    d[k] = s[k]
            if s.get("rebase"):
                d["rebase"] = True
            scms.append(d)
        else:
            scms.append({"scm": "import", "url": "imp-src", "dir": s["dir"], "prune": True})
    lib = {"checkoutSCM": scms,
           "buildScript": "echo built > b.txt\n",
           "packageScript": projgen.DUMP_FN + "__dump \"$1\" > p.txt\n"}
    root = {"root": True, "depends": ["lib"], "buildScript": projgen.DUMP_FN + "__dump \"$2\" > b.txt\n",
            "packageScript": "echo root > p.txt\n"}
    return {"recipes/lib.yaml": yaml.safe_dump(lib, sort_keys=True), "recipes/root.yaml": yaml.safe_dump(root, sort_keys=True),
            "config.yaml": yaml.safe_dump({"bobMinimumVersion": "1.3.dev999"}),
            "imp-src/i.txt": "imported\n"}

def _write_project(proj, files, clock, prev):
    for p, c in files.items():
        if prev.get(p) == c and os.path.exists(os.path.join(proj, p)):
            continue
        common.write_file(os.path.join(proj, p), c)
        t = clock.tick()
        os.utime(os.path.join(proj, p), (t, t))
    return dict(files)

def _repos_under(proj):
    out = []
    for root, dirs, files in os.walk(proj):
        if ".git" in dirs:
            out.append(root)
            dirs.remove(".git")
    return sorted(out)

def _git_heads(git, ws):
    """Commit every git directory below ws is at.  (The *name* of the local branch is not compared:
    when the workspace already is at the commit a `branch` + `commit` specification asks for, Bob
    deliberately leaves it alone, whatever the local branch is called.)"""
    out = {}
    for repo in _repos_under(ws):
        out[os.path.relpath(repo, ws)] = git.run(repo, "rev-parse", "HEAD", check=False).stdout.decode().strip()
    return out

def _find_markers(git, proj, markers):
    """Which markers are still present (working trees or reachable history)?"""
    found = set()
    want = set(markers)
    for root, dirs, files in os.walk(proj):
        if ".git" in dirs:
            dirs.remove(".git")
        rel = os.path.relpath(root, proj)
        # only source workspaces and their attics count: build/package results may contain
        # copies of what they consumed, which is no place a user would look for lost work
        if rel.split("/")[0] in ("dev", "work"):
            for lab in ("build", "dist"):
                if lab in dirs and (rel == "dev" or rel.startswith("work")):
                    dirs.remove(lab)
        for f in files:
            p = os.path.join(root, f)
            if os.path.islink(p):
                continue
            try:
                data = common.read_file(p)
            except OSError:
                continue
            if b"MARK" in data:
                text = data.decode(errors="replace")
                for m in want:
                    if m in text:
                        found.add(m)
    missing = want - found
    if missing:
        for repo in _repos_under(proj):
            p = git.run(repo, "log", "--all", "-p", "--format=%H", check=False)
            text = p.stdout.decode(errors="replace")
            p2 = git.run(repo, "stash", "list", "-p", check=False)
            text += p2.stdout.decode(errors="replace")
            for m in list(missing):
                if m in text:
                    found.add(m)
                    missing.discard(m)
            if not missing:
                break
    return found

def _lib_src(proj, release=False):
    """Current source workspace of package root/lib (as Bob assigns it)."""
    try:
        m = bobq.query(proj, develop=not release)
        return m["root/lib"]["steps"]["src"]["ws"] or ("work/lib/src/1/workspace" if release else "dev/src/lib/1/workspace")
    except (bobq.QueryError, KeyError):
        return "work/lib/src/1/workspace" if release else "dev/src/lib/1/workspace"

def _scm_paths(proj, spec, srcws="dev/src/lib/1/workspace"):
    """Directories of the git SCMs inside lib's source workspace (if present)."""
    ws = os.path.join(proj, srcws)
    out = []
    for s in spec["scms"]:
        if s["type"] == "git":
            d = os.path.normpath(os.path.join(ws, s["dir"]))
            if os.path.isdir(os.path.join(d, ".git")):
                out.append(d)
    return out

def _gen_url_case(rng):
    nloc = rng.choice([2, 3])
    times = rng.sample(range(1, 10), nloc)
    return {"url": True, "release": rng.random() < 0.4, "digest": rng.random() < 0.3,
            "locs": [{"content": "release %d %x\n" % (i, rng.getrandbits(16)), "mtime": 1_500_000_000 + 1000 * times[i]} for i in range(nloc)],
            "hist": [rng.randrange(nloc) for _ in range(rng.choice([2, 3, 4]))], "same_name": rng.random() < 0.8}

def _run_url(case):
    """url SCM: the recipe is pointed at other locations (same or other file name, older or newer
    file, with or without digest); the untouched source workspace must equal a fresh checkout."""
    import hashlib, yaml
    top = common.scratch_dir("c12u-%d" % os.getpid())
    stats = common.Counter()
    log = []
    viol = None
    try:
        up = os.path.join(top, "up")
        for i, l in enumerate(case["locs"]):
            fn = os.path.join(up, "v%d" % i, "data.txt" if case.get("same_name", True) else "data%d.txt" % i)
            common.write_file(fn, l["content"])
            os.utime(fn, (l["mtime"], l["mtime"]))
            l["path"] = fn
        release = case.get("release", False)
        srcws = "work/lib/src/1/workspace" if release else "dev/src/lib/1/workspace"
        cmd = ["build", "--no-sandbox", "root"] if release else ["dev", "root"]
        def files(i):
            scm = {"scm": "url", "url": case["locs"][i]["path"], "dir": "dl"}
            if case.get("digest"):
                scm["digestSHA1"] = hashlib.sha1(case["locs"][i]["content"].encode()).hexdigest()
            return {"config.yaml": yaml.safe_dump({"bobMinimumVersion": "1.3.dev999"}),
                    "recipes/lib.yaml": yaml.safe_dump({"checkoutSCM": scm, "buildScript": "true\n", "packageScript": "true\n"}),
                    "recipes/root.yaml": yaml.safe_dump({"root": True, "depends": ["lib"], "buildScript": "true\n", "packageScript": "true\n"})}
        proj = os.path.join(top, "w", "proj")
        last = None
        for n, i in enumerate(case["hist"]):
            if i >= len(case["locs"]):
                continue
            for p_, c_ in files(i).items():
                common.write_file(os.path.join(proj, p_), c_)
            r = buildsim.bob(proj, cmd, {"sched_seed": n + 1})
            log.append((n, i, r.rc))
            stats.inc("url_builds")
            if last is not None and last != i:
                stats.inc("url_location_changed")
                if case["locs"][i]["mtime"] <= case["locs"][last]["mtime"]:
                    stats.inc("probe_url_moved_to_older_file")
            last = i
            if r.rc != 0:
                viol = {"kind": "build-failed", "detail": "url scenario, step %d (location %d): %s" % (n, i, r.output[-600:])}
                break
            fresh = os.path.join(top, "fresh%d" % n, "proj")
            for p_, c_ in files(i).items():
                common.write_file(os.path.join(fresh, p_), c_)
            rf = buildsim.bob(fresh, cmd, {"sched_seed": 99})
            if rf.rc != 0:
                raise common.HarnessError("fresh url checkout failed: " + rf.output[-300:])
            # (release mode numbers the directories per variant: ask Bob where the step lives)
            def src_of(pr):
                for path, ent in bobq.query(pr, develop=not release).items():
                    if ent["recipe"] == "lib" and ent["steps"]["src"].get("ws"):
                        return os.path.join(pr, ent["steps"]["src"]["ws"])
                raise common.HarnessError("no source workspace of lib in " + pr)
            a = treecmp.canon(src_of(proj))
            b = treecmp.canon(src_of(fresh))
            common.rmtree(os.path.join(top, "fresh%d" % n))
            if a != b:
                viol = {"kind": "workspace-differs-from-fresh-checkout",
                        "detail": "url SCM, history %s, after step %d: untouched source workspace differs from a fresh checkout of the "
                                  "final recipe: %s" % (case["hist"], n, "; ".join(treecmp.diff(a, b, 4)))}
                break
            stats.inc("convergence_checks")
    finally:
        common.rmtree(top)
    return {"violation": viol, "digest": common.digest_of(log), "stats": dict(stats),
            "nontrivial": stats.get("url_location_changed", 0) > 0, "sim_time": float(len(log)),
            "sample": {"url": True, "hist": case["hist"], "digest": case.get("digest"), "log": log}}

def run_case(case):
    if case.get("url"):
        return _run_url(case)
    top = common.scratch_dir("c12-%d" % os.getpid())
    stats = common.Counter()
    log = []
    viol = None
    try:
        git = Git(top)
        repos = _setup_upstream(git, top, case["nrepo"])
        proj = os.path.join(top, "w", "proj")
        os.makedirs(proj)
        clock = projgen.StampClock()
        spec = {"scms": [dict(s) for s in case["spec"]["scms"]]}
        prev = _write_project(proj, _recipes(spec, repos, top), clock, {})
        markers = {}
        release = case.get("release", False)
        srcws = "work/lib/src/1/workspace" if release else "dev/src/lib/1/workspace"
        touched = False
        ncleans = 0
        outage = case.get("outage")
        away = []
        for n, op in enumerate(case["ops"]):
            # fault: upstream unreachable for a while
            if outage and n == outage["from_op"]:
                for r in repos:
                    os.rename(r["bare"], r["bare"] + ".away")
                    away.append(r)
                stats.inc("fault_upstream_outage")
            if outage and n == outage["from_op"] + outage["len"] and away:
                for r in away:
                    os.rename(r["bare"] + ".away", r["bare"])
                away = []
            try:
                if op[0] == "up":
                    if away:
                        continue
                    _, k, ri, br, f, content, tag = op
                    r = repos[ri % len(repos)]
                    w = r["work"]
                    have = git.run(w, "rev-parse", "--verify", "-q", br, check=False).returncode == 0
                    if k == "branch":
                        if not have:
                            git.run(w, "branch", br)
                            git.run(w, "push", "-q", "origin", br)
                        continue
                    if not have:
                        continue
                    git.run(w, "checkout", "-q", br)
                    if k == "commit":
                        common.write_file(os.path.join(w, f), content + "\n")
                        git.run(w, "add", "-A")
                        git.run(w, "commit", "-q", "-m", content)
                        git.run(w, "push", "-q", "origin", br)
                    elif k == "tag":
                        if git.run(w, "rev-parse", "--verify", "-q", "refs/tags/" + tag, check=False).returncode != 0:
                            git.run(w, "tag", tag)
                            git.run(w, "push", "-q", "origin", "refs/tags/" + tag)
                    elif k == "force":
                        if git.run(w, "rev-parse", "--verify", "-q", "HEAD~1", check=False).returncode == 0:
                            git.run(w, "reset", "-q", "--hard", "HEAD~1")
                            common.write_file(os.path.join(w, f), content + " rewritten\n")
                            git.run(w, "add", "-A")
                            git.run(w, "commit", "-q", "-m", "rewritten " + content)
                            git.run(w, "push", "-q", "-f", "origin", br)
                    stats.inc("upstream_" + k)
                elif op[0] == "spec":
                    _, k, br, tag, d, ri = op
                    s0 = spec["scms"][0]
                    if k == "branch" and s0["type"] == "git":
                        s0.pop("tag", None); s0.pop("commit", None)
                        if git.run(repos[s0["repo"]]["work"], "rev-parse", "--verify", "-q", br, check=False).returncode == 0:
                            s0["branch"] = br
                    elif k == "both_branch":
                        # one recipe edit that changes every git SCM of the package at once
                        for sx in spec["scms"]:
                            if sx["type"] == "git" and git.run(repos[sx["repo"]]["work"], "rev-parse", "--verify", "-q", br,
                                                               check=False).returncode == 0:
                                sx.pop("tag", None); sx.pop("commit", None)
                                sx["branch"] = br
                    elif k == "tag" and s0["type"] == "git":
                        if git.run(repos[s0["repo"]]["work"], "rev-parse", "--verify", "-q", "refs/tags/" + tag, check=False).returncode == 0:
                            s0.pop("branch", None); s0.pop("commit", None)
                            s0["tag"] = tag
                    elif k == "commit" and s0["type"] == "git":
                        c = git.run(repos[s0["repo"]]["work"], "rev-parse", br, check=False)
                        if c.returncode == 0:
                            s0.pop("branch", None); s0.pop("tag", None)
                            s0["commit"] = c.stdout.decode().strip()
                    elif k == "commit_on_branch" and s0["type"] == "git":
                        # pin a commit *on* a branch (an older one: the inline switch has to go back in history)
                        b = s0.get("branch") or br
                        w_ = repos[s0["repo"]]["work"]
                        c = git.run(w_, "rev-parse", b + "~1", check=False)
                        if c.returncode != 0:
                            c = git.run(w_, "rev-parse", b, check=False)
                        if c.returncode == 0:
                            s0.pop("tag", None)
                            s0["branch"] = b
                            s0["commit"] = c.stdout.decode().strip()
                    elif k == "tag_on_branch" and s0["type"] == "git":
                        b = s0.get("branch") or "master"
                        w_ = repos[s0["repo"]]["work"]
                        if (git.run(w_, "rev-parse", "--verify", "-q", "refs/tags/" + tag, check=False).returncode == 0 and
                                git.run(w_, "merge-base", "--is-ancestor", "refs/tags/" + tag, b, check=False).returncode == 0):
                            s0.pop("commit", None)
                            s0["branch"] = b
                            s0["tag"] = tag
                    elif k == "dir":
                        if all(x["dir"] != d for x in spec["scms"][1:]):
                            s0["dir"] = d
                    elif k == "add2" and len(spec["scms"]) == 1:
                        d2 = "ext" if s0["dir"] != "ext" else "ext2"
                        spec["scms"].append({"type": "git", "repo": ri % len(repos), "branch": "master",
                                             "dir": d2 if s0["dir"] != "." else d2})
                    elif k == "add2imp" and len(spec["scms"]) == 1:
                        spec["scms"].append({"type": "import", "dir": "ext" if s0["dir"] != "ext" else "ext2"})
                    elif k == "rm2" and len(spec["scms"]) > 1:
                        spec["scms"].pop()
                    elif k == "toimport" and s0["type"] == "git":
                        spec["scms"][0] = {"type": "import", "dir": s0["dir"]}
                    elif k == "togit" and s0["type"] != "git":
                        spec["scms"][0] = {"type": "git", "repo": ri % len(repos), "branch": "master", "dir": s0["dir"]}
                    elif k == "rebase" and s0["type"] == "git":
                        s0["rebase"] = not s0.get("rebase", False)
                    prev = _write_project(proj, _recipes(spec, repos, top), clock, prev)
                    stats.inc("spec_" + k)
                elif op[0] == "user":
                    _, k, which, f, mark = op
                    paths = _scm_paths(proj, spec, srcws)
                    if not paths:
                        continue
                    d = paths[which % len(paths)]
                    touched = True
                    if k == "dirty":
                        p = os.path.join(d, f)
                        if not os.path.isfile(p):
                            continue
                        with open(p, "a") as fh:
                            fh.write(mark + "\n")
                    elif k == "untracked":
                        common.write_file(os.path.join(d, "untracked-%s.txt" % mark[:8]), mark + "\n")
                    elif k == "untracked_dir":
                        # a directory of the user's own, named like the place a second SCM may be added at
                        common.write_file(os.path.join(d, "ext", "notes-%s.txt" % mark[:8]), mark + "\n")
                    elif k == "commit":
                        common.write_file(os.path.join(d, "user-%s.txt" % mark[:8]), mark + "\n")
                        git.run(d, "add", "-A")
                        git.run(d, "commit", "-q", "-m", "user " + mark)
                    elif k == "branch":
                        git.run(d, "checkout", "-q", "-b", "user-" + mark[:8].lower())
                        common.write_file(os.path.join(d, "ub-%s.txt" % mark[:8]), mark + "\n")
                        git.run(d, "add", "-A")
                        git.run(d, "commit", "-q", "-m", "user branch " + mark)
                    elif k == "sidebranch":
                        cur = git.run(d, "rev-parse", "--abbrev-ref", "HEAD").stdout.decode().strip()
                        if cur == "HEAD":
                            continue
                        git.run(d, "checkout", "-q", "-b", "side-" + mark[:8].lower())
                        common.write_file(os.path.join(d, "us-%s.txt" % mark[:8]), mark + "\n")
                        git.run(d, "add", "-A")
                        git.run(d, "commit", "-q", "-m", "user side branch " + mark)
                        git.run(d, "checkout", "-q", cur)
                    elif k == "stash":
                        p = os.path.join(d, f)
                        if not os.path.isfile(p):
                            continue
                        with open(p, "a") as fh:
                            fh.write(mark + "\n")
                        if git.run(d, "stash", "push", "-q", "-m", "user stash " + mark, check=False).returncode != 0:
                            continue
                    elif k == "detach":
                        git.run(d, "checkout", "-q", "--detach")
                        common.write_file(os.path.join(d, "ud-%s.txt" % mark[:8]), mark + "\n")
                        git.run(d, "add", "-A")
                        git.run(d, "commit", "-q", "-m", "user detached " + mark)
                    markers[mark] = (k, n)
                    stats.inc("user_" + k)
                elif op[0] == "bob":
                    kind = op[1]
                    if release:
                        argv = {"dev": ["build", "--no-sandbox", "root"],
                                "dev-clean-checkout": ["build", "--no-sandbox", "--clean-checkout", "root"],
                                "clean-s": ["clean", "--release", "-s"], "clean-attic": ["clean", "--attic"]}[kind]
                    else:
                        argv = {"dev": ["dev", "root"], "dev-clean-checkout": ["dev", "--clean-checkout", "root"],
                                "clean-s": ["clean", "-s"], "clean-attic": ["clean", "--attic"]}[kind]
                    r = buildsim.bob(proj, argv, {"sched_seed": op[2], "durations": [0, 0.001, 1]})
                    out = r.output
                    outcome = (kind, r.rc, "ATTIC" in out, "SWITCH" in out)
                    log.append(outcome)
                    stats.inc("bob_" + kind)
                    if "ATTIC" in out:
                        stats.inc("probe_attic_move")
                        if markers:
                            stats.inc("probe_attic_move_with_user_work")
                    if "SWITCH" in out:
                        stats.inc("probe_inline_switch")
                        if markers:
                            stats.inc("probe_inline_switch_with_user_work")
                    if r.rc != 0:
                        stats.inc("bob_failed_" + kind)
                    elif kind.startswith("dev"):
                        srcws = _lib_src(proj, release)
                    if any(e[0] == "DEADLOCK" for e in r.events):
                        viol = {"kind": "deadlock", "detail": "%s" % argv}
                        break
                    # Oracle 2
                    if markers:
                        found = _find_markers(git, proj, markers)
                        lost = sorted(set(markers) - found)
                        if lost:
                            viol = {"kind": "user-work-lost",
                                    "detail": "after op %d `bob %s` (rc %d): marker(s) of user op(s) %s are gone; output: %s" % (
                                        n, " ".join(argv), r.rc, [markers[m] for m in lost], out[-700:])}
                            break
                    # Oracle 1
                    if kind.startswith("dev") and r.rc == 0 and not touched and not away:
                        ncleans += 1
                        cp = os.path.join(top, "clean%d" % ncleans, "p")
                        os.makedirs(cp)
                        _write_project(cp, _recipes(spec, repos, top), clock, {})
                        rc = buildsim.bob(cp, argv[:2] + ["root"] if release else ["dev", "root"], {"durations": [0]})
                        if rc.rc != 0:
                            # e.g. the recipe pins a commit that a later force-push removed from
                            # upstream: the old workspace still has it, a fresh clone cannot get it
                            stats.inc("probe_fresh_checkout_impossible")
                            common.rmtree(os.path.join(top, "clean%d" % ncleans))
                            continue
                        a = treecmp.canon(os.path.join(proj, srcws), ignore_scm=True)
                        fresh_ws = os.path.join(cp, _lib_src(cp, release))
                        b = treecmp.canon(fresh_ws, ignore_scm=True)
                        # ... and every git directory is at the same commit, on the same branch (or detached)
                        ha = _git_heads(git, os.path.join(proj, srcws))
                        hb = _git_heads(git, fresh_ws)
                        stats.inc("convergence_checks")
                        common.rmtree(os.path.join(top, "clean%d" % ncleans))
                        if a != b:
                            viol = {"kind": "checkout-does-not-converge",
                                    "detail": "after op %d: untouched source workspace differs from a fresh checkout of %s: %s" % (
                                        n, spec, treecmp.diff(a, b, 5))}
                            break
                        if ha != hb:
                            viol = {"kind": "checkout-does-not-converge",
                                    "detail": "after op %d: untouched source workspace has the files of a fresh checkout of %s but its "
                                              "git state differs: %s, fresh checkout: %s" % (n, spec, ha, hb)}
                            break
            except GitError as e:
                stats.inc("harness_git_op_skipped")
                continue
    finally:
        common.rmtree(top)
    nontriv = stats.get("probe_attic_move_with_user_work", 0) + stats.get("probe_inline_switch_with_user_work", 0) > 0
    return {"violation": viol, "digest": common.digest_of(log), "stats": dict(stats), "nontrivial": nontriv,
            "sim_time": float(len(log)),
            "sample": {"ops": case["ops"][:14], "outage": case.get("outage"), "log": log}}
