"""C11 Directory hashes are content exact and cache transparent.

Model-based history simulation with a stat-clock seam: a tree and its
persistent hash cache (cache.bin) live across a history of modifications; the
simulator owns the stat clock (fresh mtime on every modification, clock jumps
backwards/forwards).  After each 'hash' step:

  cached hash == uncached hash                         (cache transparency)
  equal canonical serialisation  <=> equal hash        (content exactness)

The canonical serialisation (verifsim.treecmp) is the independent reference.
"""

import os

from .. import common, treecmp, treegen

PROPERTY = "C11"
LEVEL = "exploration"
RULE = ("case = seeded initial tree + history of create/modify/same-size rewrite/chmod/delete/"
        "rename/type-replacement/hardlink/fifo/clock-jump operations with a cached+uncached hash "
        "after a random subset of steps; non-trivial = at least one cache hit AND one cache "
        "invalidation happened between two hashes; distinct = digest of (sequence of canonical "
        "tree states at the hash points)")
COMPONENTS = {"real": ["bob.utils.DirHasher/FileIndex/hashDirectory", "kernel tmpfs"],
              "stub": ["stat clock (mtime set by harness from simulated clock)"],
              "not_exercised": []}
ASSUMPTIONS = ["every modification changes the file's stat data (enforced: fresh mtime per modification)",
               "no concurrent modification while hashing"]
SHRINK = ["ops"]

def plan(tier):
    if tier == "thorough":
        return {"cases": 60000, "timeout": 120, "wall_budget": 900, "recheck": 16, "batch": 20}
    return {"cases": 3000, "timeout": 120, "wall_budget": 70, "recheck": 4, "batch": 10}

def gen_case(rng, tier, index):
    model = treegen.TreeModel()
    n0 = rng.choice([0, 2, 6, 12])
    init = [op for op in treegen.gen_ops(rng, model, n0, hash_prob=0.0) if op[0] != "clockjump"]
    nops = rng.choice([3, 6, 10, 20, 30])
    ops = treegen.gen_ops(rng, model, nops, hash_prob=rng.choice([0.3, 0.6, 1.0]))
    ops.append(["hash"])
    return {"init": init, "ops": ops, "ignore": rng.random() < 0.15}

def run_case(case):
    from bob.utils import hashDirectory
    top = common.scratch_dir("c11-%d" % os.getpid())
    root = os.path.join(top, "tree")
    os.mkdir(root)
    cache = os.path.join(top, "cache.bin")
    clock = treegen.SimClock()
    stats = common.Counter()
    log = []
    canon2hash = {}
    hash2canon = {}
    viol = None
    ign = ["a0"] if case.get("ignore") else None
    hashed_once = False
    try:
        for op in case["init"]:
            treegen.apply_op(root, op, clock)
        for step, op in enumerate([["hash"]] + case["ops"]):
            if op[0] != "hash":
                ok = treegen.apply_op(root, op, clock)
                stats.inc("op_" + op[0] if ok else "op_skipped")
                continue
            size_before = os.path.getsize(cache) if os.path.exists(cache) else -1
            raw_before = common.read_file(cache) if size_before >= 0 else b""
            h_cached = hashDirectory(root, cache, ign)
            h_plain = hashDirectory(root, None, ign)
            raw_after = common.read_file(cache) if os.path.exists(cache) else b""
            if hashed_once:
                if raw_after == raw_before:
                    stats.inc("hash_all_hits")
                else:
                    stats.inc("hash_index_rewritten")
            hashed_once = True
            can = treecmp.canon(root, ignore_scm=True)
            if ign:
                can = [e for e in can if not _ignored_dir(e, ign, can)]
            cd = common.digest_of(can)
            log.append(cd)
            stats.inc("hash_points")
            if h_cached != h_plain:
                viol = {"kind": "cache-not-transparent",
                        "detail": "step %d: cached %s != uncached %s; tree=%s" % (
                            step, h_cached.hex(), h_plain.hex(), treecmp.describe(can, 12))}
                break
            if cd in canon2hash and canon2hash[cd] != h_plain:
                viol = {"kind": "hash-not-function-of-content",
                        "detail": "step %d: same canonical tree, different hash" % step}
                break
            if h_plain in hash2canon and hash2canon[h_plain][0] != cd:
                viol = {"kind": "hash-collision",
                        "detail": "step %d: different trees share hash %s: %s" % (
                            step, h_plain.hex(),
                            treecmp.diff(hash2canon[h_plain][1], can))}
                break
            canon2hash[cd] = h_plain
            hash2canon[h_plain] = (cd, can)
    finally:
        common.rmtree(top)
    nontrivial = stats.get("hash_index_rewritten", 0) > 0 and len(set(log)) > 1
    return {"violation": viol, "digest": common.digest_of(log), "key": common.digest_of(log),
            "stats": dict(stats), "nontrivial": nontrivial,
            "sim_time": float(len(case["ops"])),
            "sample": {"init": case["init"][:4], "ops": case["ops"][:12], "n_ops": len(case["ops"])}}

def _ignored_dir(entry, ign, can):
    # ignoreDirs applies to directories of that name at any level
    parts = entry[0].split(b"/")
    names = {os.fsencode(i) for i in ign}
    # an entry is dropped if it is, or lies below, a *directory* with an ignored name
    dirs = {e[0] for e in can if e[1] == "d"}
    for i in range(len(parts)):
        p = b"/".join(parts[:i + 1])
        if parts[i] in names and p in dirs:
            return True
    return False
