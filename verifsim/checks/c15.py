"""C15 Shared package store is safe under concurrent projects.

Engine B (procsim).  2..4 project processes (each with its own project
directory, BobState and LocalBuilder) and gc processes work on one shared
store.  Project processes run the real builder code path of a package step --
`_preparePackageStep`, `_useSharedPackage`, (build), `_installSharedPackage` --
with stub step objects; gc processes call `LocalShare.gc` like
`bob clean --shared [--all-unused]`.  `bob.share.{os,open,shutil,tempfile,
lockFile,unlockFile}` and `bob.builder.{os,removePath}` are sim points; locks
are real flocks taken non-blockingly under scheduler control; mtimes of written
files come from the simulated clock (1 scheduler step = 1 s).

Invariants (parent, between steps, on the real store):
 I1 a visible <store>/aa/bb/..-3 has pkg.json, audit.json.gz and a workspace
    equal to the package content (canonical serialisation) whose Bob hash
    equals the recorded one;
 I2 an install reports wasInstalled=True exactly if its own rename put the
    package in place;
 I3 when a non-forced gc moves a package away, no project workspace link that
    existed when the gc took the store lock resolves to it;
 I4 at quiescence repo.json lists exactly the installed packages with the
    sizes recorded in their pkg.json;
 I5 a gc removes only unused packages, oldest first (pkg.json mtime), and for
    automatic cleaning the minimal such set reaching the quota (or all unused);
 I6 no operation raises (only the documented BuildError for a hash mismatch
    would be tolerated; it cannot occur here);
 I7 no deadlock.
"""

import json
import os
import fcntl

from .. import common, procsim, treecmp, treegen

PROPERTY = "C15"
LEVEL = "exploration"
RULE = ("case = store world (1..3 packages, quota none..tiny, autoClean on/off, store directory present or not) + "
        "per-process operation scripts (build/use, stop using, gc, gc --all-unused) + explicit schedule; "
        "non-trivial = two processes interleaved inside each other's store operations; distinct = digest of the "
        "event log")
COMPONENTS = {"real": ["bob.share.LocalShare (install/use/gc, OpenLocked, CopyMachine)",
                       "bob.builder.LocalBuilder._preparePackageStep/_useSharedPackage/_installSharedPackage",
                       "bob.state._BobState per project", "kernel flock, rename, symlink on tmpfs"],
              "stub": ["step/package objects (workspace path, variant id, shared flag)", "the build itself (content written by harness)",
                       "process scheduling, stat clock"],
              "not_exercised": ["Windows place-holder files instead of symlinks", "actor crashes (statement quantifies over schedules)"]}
ASSUMPTIONS = ["flock gives mutual exclusion between processes", "packages with the same Build-Id have the same content"]
SHRINK = ["actors", "decisions"]

def plan(tier):
    if tier == "thorough":
        return {"cases": 8000, "timeout": 300, "wall_budget": 1500, "recheck": 10, "batch": 2, "nproc": 4}
    return {"cases": 240, "timeout": 240, "wall_budget": 60, "recheck": 3, "batch": 2, "nproc": 4}

def bid_of(k):
    return bytes([0x30 + k] * 20)

def gen_case(rng, tier, index):
    npk = rng.choice([1, 1, 2, 3])
    nproj = rng.choice([2, 2, 3, 4])
    actors = []
    for i in range(nproj):
        ops = []
        for _ in range(rng.choice([1, 2, 3, 5])):
            r = rng.random()
            k = rng.randrange(npk)
            if r < 0.6: ops.append(["build", k])
            elif r < 0.85: ops.append(["unuse", k])
            else: ops.append(["gc", rng.random() < 0.6])
        if not any(o[0] == "build" for o in ops):
            ops.insert(0, ["build", rng.randrange(npk)])
        actors.append({"name": "p%d" % i, "kind": "proj", "ops": ops})
    for j in range(rng.choice([0, 1, 1, 2])):
        actors.append({"name": "g%d" % j, "kind": "gc",
                       "ops": [["gc", rng.random() < 0.7] for _ in range(rng.choice([1, 2]))]})
    sizes = [rng.choice([10, 300, 2000, 9000]) for _ in range(npk)]
    quota = rng.choice([None, None, 0, 500, 3000, 12000, 100000])
    extra = {}
    if rng.random() < 0.2:
        # fault configuration: one of the moves a gc performs fails (EACCES: the package belongs to another
        # user of the shared store, EBUSY, EIO); the gc may fail, the accounting must stay truthful
        extra["gc_rename_fault"] = {"pick": rng.randrange(100), "errno": rng.choice([13, 16, 5])}
    return {**extra, "actors": actors, "sizes": sizes, "quota": quota, "autoClean": rng.random() < 0.7,
            "store_exists": rng.choice(["no", "empty", "empty"]),
            "sched_seed": rng.getrandbits(32), "stickiness": rng.choice([0.0, 0.6, 0.9, 0.97]),
            "decisions": None}

def directed_cases(tier):
    return [
        # gc on a store directory that exists but never saw an install
        {"actors": [{"name": "g0", "kind": "gc", "ops": [["gc", True]]}], "sizes": [10], "quota": None,
         "autoClean": True, "store_exists": "empty", "sched_seed": 1, "stickiness": 0.0, "decisions": None,
         "directed": "gc on empty store"},
        # gc racing with the very first installation
        {"actors": [{"name": "p0", "kind": "proj", "ops": [["build", 0]]},
                    {"name": "g0", "kind": "gc", "ops": [["gc", True], ["gc", True]]}], "sizes": [10], "quota": None,
         "autoClean": True, "store_exists": "no", "sched_seed": 7, "stickiness": 0.5, "decisions": None,
         "directed": "gc vs first install"},
        # two projects install the same package, the winner stops using it, gc
        {"actors": [{"name": "p0", "kind": "proj", "ops": [["build", 0], ["unuse", 0], ["gc", True]]},
                    {"name": "p1", "kind": "proj", "ops": [["build", 0]]}], "sizes": [300], "quota": None,
         "autoClean": True, "store_exists": "empty", "sched_seed": 3, "stickiness": 0.0, "decisions": None,
         "directed": "lost install race then gc"},
        # least-recently-used order: pkg0 is installed first but re-used after pkg1; both become
        # unused; the installation of pkg2 exceeds the quota by one package -> pkg1 must go
        {"actors": [{"name": "p0", "kind": "proj", "ops": [["build", 0], ["build", 1], ["build", 0], ["unuse", 0], ["unuse", 1], ["build", 2]]}],
         "sizes": [2000, 2000, 2000], "quota": 9000, "autoClean": True, "store_exists": "empty", "sched_seed": 5,
         "stickiness": 0.0, "decisions": None, "directed": "re-use refreshes the age (LRU)"},
        {"actors": [{"name": "p0", "kind": "proj", "ops": [["build", 0], ["build", 1], ["build", 0], ["unuse", 0], ["unuse", 1]]},
                    {"name": "p1", "kind": "proj", "ops": [["build", 1], ["build", 0], ["build", 1], ["unuse", 0], ["unuse", 1], ["build", 2]]}],
         "sizes": [2000, 2000, 2000], "quota": 9000, "autoClean": True, "store_exists": "empty", "sched_seed": 6,
         "stickiness": 0.9, "decisions": None, "directed": "LRU with two projects"},
        # a gc that has to move several packages fails at the second / third move (fault configuration)
        {"actors": [{"name": "p0", "kind": "proj", "ops": [["build", 0], ["build", 1], ["build", 2], ["unuse", 0], ["unuse", 1], ["unuse", 2],
                                                           ["gc", True], ["gc", True]]}],
         "sizes": [2000, 2000, 2000], "quota": None, "autoClean": True, "store_exists": "empty", "sched_seed": 8,
         "stickiness": 0.0, "decisions": None, "gc_rename_fault": {"pick": 1, "errno": 13},
         "directed": "gc fails at its second move"},
        {"actors": [{"name": "p0", "kind": "proj", "ops": [["build", 0], ["build", 1], ["build", 2], ["unuse", 0], ["unuse", 1], ["unuse", 2]]},
                    {"name": "g0", "kind": "gc", "ops": [["gc", True], ["gc", True]]}],
         "sizes": [300, 2000, 10], "quota": 100, "autoClean": False, "store_exists": "empty", "sched_seed": 9,
         "stickiness": 0.97, "decisions": None, "gc_rename_fault": {"pick": 2, "errno": 16},
         "directed": "gc fails at its third move"},
    ]

# ---------------------------------------------------------------------------
# child side

WS = "dev/dist/pkg%d/1/workspace"

class _Pkg:
    def __init__(self, k): self.k = k
    def getName(self): return "pkg%d" % self.k
    def getStack(self): return ["root", "pkg%d" % self.k]

class _Step:
    JENKINS = False
    def __init__(self, k): self.k = k
    def getWorkspacePath(self): return WS % self.k
    def getStoragePath(self):
        from bob.state import BobState
        return BobState().getStoragePath(self.getWorkspacePath())
    def getVariantId(self): return bytes([0x70 + self.k] * 20)
    def isShared(self): return True
    def getPackage(self): return _Pkg(self.k)
    def isPackageStep(self): return True

def write_pkg_content(ws, k, size):
    os.makedirs(os.path.join(ws, "sub"), exist_ok=True)
    common.write_file(os.path.join(ws, "data"), treegen.content_bytes("pkg%d" % k, size))
    common.write_file(os.path.join(ws, "sub", "x"), b"pkg%d" % k, 0o755)
    if not os.path.lexists(os.path.join(ws, "lnk")):
        os.symlink("data", os.path.join(ws, "lnk"))
    if not os.path.lexists(os.path.join(ws, "hard")):
        os.link(os.path.join(ws, "data"), os.path.join(ws, "hard"))

def _install_proxies():
    import shutil, tempfile
    import bob.share as SH
    import bob.builder as B
    import bob.utils
    procsim.WRITE_STRIDE = 100000
    procsim.STAMP_WRITES = True
    def utime(path, *a, **kw):
        procsim.point("os.utime", path)
        procsim.SIM.stamp(path)
    SH.os = procsim.ModProxy(os, "os", points={"rename", "makedirs", "mkdir", "readlink", "link"},
        sub={"path": procsim.ModProxy(os.path, "os.path", points={"isdir", "exists", "islink", "samefile"})},
        override={"utime": utime})
    SH.open = procsim.make_open()
    SH.shutil = procsim.ModProxy(shutil, "shutil", points={"copyfile", "move", "copytree"})
    SH.tempfile = procsim.ModProxy(tempfile, "tempfile", points={"TemporaryDirectory"})
    SH.lockFile, SH.unlockFile = procsim.make_flock()
    B.os = procsim.ModProxy(os, "bos", points={"symlink", "unlink", "makedirs"})
    B.removePath = procsim.wrap("removePath", bob.utils.removePath)

def _actor(root, a, case):
    _install_proxies()
    from bob.builder import LocalBuilder, packageInputBuilt
    from bob.share import LocalShare
    from bob.state import BobState
    from bob.utils import hashDirectory
    from bob.tty import setVerbosity
    from bob.errors import BuildError
    setVerbosity(-2)
    spec = {"path": os.path.join(root, "store"), "autoClean": case["autoClean"]}
    if case["quota"] is not None:
        spec["quota"] = case["quota"]
    share = LocalShare(spec)
    orig_install = share.installSharedPackage
    def traced_install(workspace, buildId, sharedHash, mayMove):
        r = orig_install(workspace, buildId, sharedHash, mayMove)
        procsim.point("INSTALL-RET", buildId[0] - 0x30, bool(r[1]))
        return r
    share.installSharedPackage = traced_install
    proj = os.path.join(root, a["name"])
    os.makedirs(proj, exist_ok=True)
    os.chdir(proj)
    res = []
    builder = None
    if a["kind"] == "proj":
        builder = LocalBuilder(0, False, False, False, False, set(), "/bob", False, True)
        builder.setShareHandler(share)
        builder.setShareMode(True, True)
    try:
        for op in a["ops"]:
            if op[0] == "build":
                k = op[1]
                step = _Step(k)
                bid = bid_of(k)
                procsim.point("BUILD-BEGIN", k)
                builder._preparePackageStep(step)
                shared, audit = builder._useSharedPackage(step, bid)
                procsim.point("USE-RET", k, bool(shared))
                if not shared:
                    ws, created = builder._constructDir(step, "dist")
                    write_pkg_content(ws, k, case["sizes"][k])
                    common.write_file(os.path.join(ws, "..", "audit.json.gz"), b"audit-of-pkg%d" % k)
                    h = hashDirectory(ws, os.path.join(ws, "..", "cache.bin"))
                    BobState().setResultHash(ws, h)
                    BobState().setVariantId(ws, step.getVariantId())
                    BobState().setInputHashes(ws, packageInputBuilt(bid, []))
                    builder._installSharedPackage(step, bid)
                procsim.point("BUILD-END", k)
                res.append(("build", k, bool(shared)))
            elif op[0] == "unuse":
                k = op[1]
                ws = WS % k
                procsim.point("UNUSE", k)
                if os.path.islink(ws):
                    os.unlink(ws)
                    ap = os.path.join(os.path.dirname(ws), "audit.json.gz")
                    if os.path.lexists(ap):
                        os.unlink(ap)
                    BobState().resetWorkspaceState(ws, None)
                res.append(("unuse", k))
            elif op[0] == "gc":
                procsim.point("GC-BEGIN", bool(op[1]))
                r = share.gc(False, op[1])
                procsim.point("GC-END", r)
                res.append(("gc", r))
    finally:
        from bob.state import finalize
        finalize()
    return res

# ---------------------------------------------------------------------------
# parent side

def _store_path(root, k):
    h = bid_of(k).hex() + "-3"
    return os.path.join(root, "store", h[0:2], h[2:4], h[4:])

def _read_locked_json(path):
    """Parse a json file of the store only if nobody holds its lock."""
    try:
        with open(path, "r") as f:
            try:
                fcntl.flock(f.fileno(), fcntl.LOCK_SH | fcntl.LOCK_NB)
            except OSError:
                return "locked"
            try:
                return json.load(f)
            finally:
                fcntl.flock(f.fileno(), fcntl.LOCK_UN)
    except FileNotFoundError:
        return None
    except ValueError as e:
        return "corrupt: %s" % e

def _links_to(root, case, k):
    """Project workspaces whose link currently points at package k."""
    tgt = os.path.join(_store_path(root, k), "workspace")
    out = []
    for a in case["actors"]:
        if a["kind"] != "proj":
            continue
        lp = os.path.join(root, a["name"], WS % k)
        if os.path.islink(lp) and os.path.normpath(os.readlink(lp)) == os.path.normpath(tgt):
            out.append(a["name"])
    return out

def run_case(case):
    """Fault-free run; in the fault configuration (kept apart) the same schedule is run once more
    with an I/O error at one of the moves of a garbage collection."""
    r = _run(case, [])
    gf = case.get("gc_rename_fault")
    if gf and r["violation"] is None and r.get("_gc_renames"):
        name, at = r["_gc_renames"][gf["pick"] % len(r["_gc_renames"])]
        flt = {"actor": name, "at": at, "kind": "errno", "errno": gf["errno"]}
        r2 = _run(dict(case, decisions=r["_decisions"]), [flt])
        r2["stats"]["fault_gc_rename_errno"] = 1
        for k, v in r["stats"].items():
            r2["stats"][k] = r2["stats"].get(k, 0) + v
        r2["digest"] = common.digest_of([r["digest"], r2["digest"]])
        r = r2
    r.pop("_gc_renames", None)
    r.pop("_decisions", None)
    return r

def _run(case, faults):
    from bob.utils import hashDirectory
    stats = common.Counter()
    root = common.scratch_dir("c15-%d" % os.getpid())
    sim = None
    viol = None
    npk = len(case["sizes"])
    try:
        if case["store_exists"] != "no":
            os.makedirs(os.path.join(root, "store"))
        # expected content per package
        expect = {}
        for k in range(npk):
            d = os.path.join(root, "expect%d" % k)
            write_pkg_content(d, k, case["sizes"][k])
            expect[k] = (treecmp.canon_digest(d), hashDirectory(d))
        sim = procsim.ProcSim(root, decisions=case.get("decisions"), sched_seed=case["sched_seed"],
                              stickiness=case["stickiness"], faults=faults)
        faulted = {f["actor"] for f in faults}
        for a in case["actors"]:
            sim.spawn(a["name"], _actor, root, a, case)
        seen_ino = {}
        pending_meta = set()
        box = {"v": None}
        rename_ok = {}          # actor -> bool: did its last install-rename put the package in place
        src_ino = {}
        last_inst = {}
        lost_race = set()
        own_inc = {}            # (actor, pkg) -> inode of the package directory this actor installed
        collected_own = set()   # (actor, pkg): its own installation was collected before it linked
        link_inc = {}
        last_use = {}
        gc_state = {}           # actor -> snapshot taken when it got the store lock

        def check_pkg(k, final=False):
            p = _store_path(root, k)
            if not os.path.isdir(p):
                seen_ino.pop(k, None)
                pending_meta.discard(k)
                return None
            ino = os.stat(p).st_ino
            if seen_ino.get(k) != ino or final:
                seen_ino[k] = ino
                stats.inc("pkg_visible")
                for need in ("pkg.json", "audit.json.gz", "workspace"):
                    if not os.path.exists(os.path.join(p, need)):
                        return {"kind": "incomplete-package-visible",
                                "detail": "pkg%d visible in store without %s" % (k, need)}
                if treecmp.canon_digest(os.path.join(p, "workspace")) != expect[k][0]:
                    return {"kind": "package-content-wrong", "detail": "pkg%d workspace differs from the built content" % k}
                if common.read_file(os.path.join(p, "audit.json.gz")) != b"audit-of-pkg%d" % k:
                    return {"kind": "package-audit-wrong", "detail": "pkg%d" % k}
                pending_meta.add(k)
            if k in pending_meta:
                meta = _read_locked_json(os.path.join(p, "pkg.json"))
                if meta == "locked":
                    return None
                pending_meta.discard(k)
                if not isinstance(meta, dict):
                    return {"kind": "package-meta-unreadable", "detail": "pkg%d: %s" % (k, meta)}
                if meta.get("hash") != expect[k][1].hex():
                    return {"kind": "package-hash-mismatch",
                            "detail": "pkg%d recorded hash %s != actual %s" % (k, meta.get("hash"), expect[k][1].hex())}
            return None

        def snapshot_for_gc():
            repo = _read_json_nolock(os.path.join(root, "store", "repo.json")) or {}
            snap = {"pkgs": {}, "repoSize": 0}
            for k in range(npk):
                hexid = bid_of(k).hex()
                if hexid not in repo.get("pkgs", {}):
                    continue
                p = _store_path(root, k)
                try:
                    mt = os.stat(os.path.join(p, "pkg.json")).st_mtime_ns
                except OSError:
                    continue
                size = repo["pkgs"][hexid]
                meta = _read_json_nolock(os.path.join(p, "pkg.json")) or {}
                ino = os.stat(p).st_ino
                # a link only counts as "uses this package" if it was made to this
                # incarnation; a stale link left from an earlier, collected incarnation
                # that happens to resolve again after a re-install is a probe only
                links = [n for n in _links_to(root, case, k) if link_inc.get((n, k)) == ino]
                stale = [n for n in _links_to(root, case, k) if link_inc.get((n, k)) != ino]
                if stale:
                    stats.inc("probe_stale_link_to_reinstalled_package")
                snap["pkgs"][k] = {"mtime": mt, "size": size, "links": links,
                                   "users": meta.get("users", [])}
                snap["repoSize"] += size
            return snap

        def on_step(actor, cur):
            op = cur[1]
            # I2 bookkeeping: rename of a prepared package into place.  Success is
            # decided by inode identity: the directory now at the final place is
            # the one this process prepared.
            if op == "os.rename" and len(cur[2]) >= 2 and isinstance(cur[2][1], str) and cur[2][1].endswith("-3"):
                dst = os.path.join(root, cur[2][1][3:])
                try:
                    ok = os.stat(dst).st_ino == src_ino.get(actor.name)
                except OSError:
                    ok = False
                rename_ok[actor.name] = ok
                if ok:
                    last_inst[actor.name] = [kk for kk in range(npk)
                                             if cur[2][1].endswith(_store_path(root, kk)[len(root):])][0]
                    own_inc[(actor.name, last_inst[actor.name])] = src_ino.get(actor.name)
            if actor.state == "ready":
                nxt = actor.cur
                if nxt[1] == "os.rename" and len(nxt[2]) >= 2 and isinstance(nxt[2][1], str) and nxt[2][1].endswith("-3"):
                    try:
                        src_ino[actor.name] = os.stat(os.path.join(root, nxt[2][0][3:])).st_ino
                    except OSError:
                        src_ino[actor.name] = None
                if nxt[1] == "BUILD-BEGIN":
                    rename_ok[actor.name] = False
                if nxt[1] == "INSTALL-RET":
                    claimed = nxt[2][1]
                    if claimed != rename_ok.get(actor.name, False):
                        box["v"] = {"kind": "install-result-wrong",
                                    "detail": "%s: installSharedPackage returned wasInstalled=%s but its rename %s" % (
                                        actor.name, claimed, "succeeded" if rename_ok.get(actor.name) else "did not put the package in place")}
                        return False
                    stats.inc("install_true" if claimed else "probe_lost_install_race")
                    if not claimed:
                        lost_race.add((actor.name, nxt[2][0]))
            # "oldest first" means least recently *used*: a use is the registration of a
            # workspace in pkg.json or the refresh (utime) Bob performs when a registered
            # workspace uses the package again, and the installation itself
            if op in ("os.utime", "file.close", "file.truncate") and cur[2] and isinstance(cur[2][0], str):
                for kk in range(npk):
                    if _store_path(root, kk)[len(root):] in cur[2][0] and actor.name not in gc_state:
                        last_use[kk] = sim.step
            if op == "os.rename" and rename_ok.get(actor.name) and actor.name in last_inst and len(cur[2]) >= 2 \
                    and isinstance(cur[2][1], str) and cur[2][1].endswith("-3"):
                last_use[last_inst[actor.name]] = sim.step
            # which incarnation (directory inode) of a package a workspace was linked to
            if op == "bos.symlink" and isinstance(cur[2][0], str) and cur[2][0].endswith("-3/workspace"):
                for kk in range(npk):
                    if cur[2][0].endswith(_store_path(root, kk)[len(root):] + "/workspace"):
                        try:
                            link_inc[(actor.name, kk)] = os.stat(_store_path(root, kk)).st_ino
                        except OSError:
                            link_inc[(actor.name, kk)] = None
                            stats.inc("probe_linked_to_vanished_package")
            # gc bookkeeping
            if op == "flock" and cur[2][:1] == ["EX"] and cur[2][1].endswith("repo.json") and actor.state != "blocked":
                if actor.name in gc_state and gc_state[actor.name].get("armed"):
                    gc_state[actor.name].update(snapshot_for_gc(), armed=False, removed=[], last_use=dict(last_use))
            if op == "retry-lock" and actor.state != "blocked":
                st = gc_state.get(actor.name)
                if st and st.get("armed"):
                    st.update(snapshot_for_gc(), armed=False, removed=[], last_use=dict(last_use))
            if op == "GC-BEGIN":
                gc_state[actor.name] = {"armed": True, "all": cur[2][0], "auto": False, "new": None}
            if (op == "tempfile.TemporaryDirectory" and actor.name not in gc_state
                    and rename_ok.get(actor.name) and actor.name in last_inst):
                # automatic gc inside installSharedPackage (attic directory is created first)
                gc_state[actor.name] = {"armed": True, "all": False, "auto": True, "new": last_inst[actor.name]}
            if op == "os.rename" and len(cur[2]) >= 2 and isinstance(cur[2][0], str) and cur[2][0].endswith("-3"):
                # a package is moved away (to the attic of a gc)
                k = [kk for kk in range(npk) if cur[2][0].endswith(_store_path(root, kk)[len(root):])]
                if k and isinstance(cur[2][1], str):
                    # whose installation was that, and had the installer linked its workspace yet?
                    try:
                        gone = os.stat(os.path.join(root, cur[2][1][3:])).st_ino
                    except OSError:
                        gone = None
                    for (an, kk), ino in own_inc.items():
                        if kk == k[0] and ino is not None and ino == gone and link_inc.get((an, kk)) != ino:
                            collected_own.add((an, kk))
                            stats.inc("probe_installed_package_collected_before_link")
                st = gc_state.get(actor.name)
                if k and st is not None and "pkgs" in st:
                    k = k[0]
                    stats.inc("gc_removed")
                    st["removed"].append(k)
                    info = st["pkgs"].get(k)
                    if info is None:
                        box["v"] = {"kind": "gc-removed-unaccounted", "detail": "pkg%d" % k}
                        return False
                    # links that existed when the gc took the store lock and still exist now
                    still = [n for n in info["links"] if n in _links_to_path(root, case, k)]
                    if still:
                        unreg = [n for n in still
                                 if os.path.join(root, n, WS % k) not in info["users"]]
                        if unreg and all((n, k) in lost_race for n in unreg) and len(unreg) == len(still):
                            why = ("unregistered link(s) %s: workspace linked after installSharedPackage returned "
                                   "wasInstalled=False (lost install race) without being added to pkg.json users" % unreg)
                        elif unreg and all((n, k) in collected_own for n in unreg) and len(unreg) == len(still):
                            why = ("unregistered link(s) %s: the package this project installed was collected before its workspace "
                                   "link was created (links are made outside any lock), another project re-installed the Build-Id "
                                   "and the link now points to a package that does not list the project as user" % unreg)
                        else:
                            why = "registered users %s" % [n for n in still if n not in unreg]
                        box["v"] = {"kind": "gc-collected-used-package",
                                    "detail": "non-forced gc by %s moved pkg%d away while %s link(s) to it; %s" % (
                                        actor.name, k, still, why)}
                        return False
                    late = _links_to_path(root, case, k)
                    if late:
                        stats.inc("probe_link_created_during_gc")
            if op in ("GC-END", "BUILD-END") and actor.name in gc_state:
                st = gc_state.pop(actor.name)
                if "pkgs" in st:
                    st.setdefault("linked_during", set()).update(
                        k for k in st["pkgs"] if _links_to(root, case, k))
                    v = _check_lru(st, case, npk, st.get("last_use"))
                    if v:
                        box["v"] = v
                        return False
            for st in gc_state.values():
                if "pkgs" in st:
                    # links that appear while the gc runs may legitimately be seen by it
                    st.setdefault("linked_during", set()).update(
                        k for k in st["pkgs"] if _links_to(root, case, k))
            for k in range(npk):
                v = check_pkg(k)
                if v:
                    box["v"] = dict(v, detail=v["detail"] + " (after %s %s)" % (actor.name, op))
                    return False
            return True

        sim.run(on_step)
        viol = box["v"]
        if viol is None and sim.deadlock:
            viol = {"kind": "deadlock", "detail": "all remaining processes wait for locks: %s" % [
                (a.name, a.cur) for a in sim.actors if a.state == "blocked"]}
        results = {}
        for a in sim.actors:
            if a.result is None:
                results[a.name] = a.state
                continue
            if a.result[0] == "exc":
                if "SimHarnessError" in a.result[1][0]:
                    raise procsim.SimHarnessError(a.result[1][0])
                if viol is None and a.name in faulted and "[Errno" in a.result[1][0]:
                    stats.inc("operation_failed_by_injected_error")     # it may fail; the store must stay consistent
                elif viol is None:
                    viol = {"kind": "operation-failed", "detail": "%s: %s || %s" % (a.name, a.result[1][0], a.result[1][1][-1800:])}
                results[a.name] = "exc"
            else:
                results[a.name] = a.result[1]
        if viol is None and sim.step < sim.max_steps:
            # I1 again on the final state, I4 accounting
            for k in range(npk):
                v = check_pkg(k, final=True)
                if v:
                    viol = dict(v, detail=v["detail"] + " (final state)")
                    break
        if viol is None and sim.step < sim.max_steps:
            repo = _read_json_nolock(os.path.join(root, "store", "repo.json"))
            listed = dict((repo or {}).get("pkgs", {}))
            actual = {}
            for k in range(npk):
                p = _store_path(root, k)
                if os.path.isdir(p):
                    meta = _read_json_nolock(os.path.join(p, "pkg.json")) or {}
                    actual[bid_of(k).hex()] = meta.get("size")
            if listed != actual:
                viol = {"kind": "repo-accounting-wrong",
                        "detail": "repo.json lists %s but installed packages are %s" % (listed, actual)}
            for k in range(npk):
                if not os.path.isdir(_store_path(root, k)):
                    for a in case["actors"]:
                        lp = os.path.join(root, a["name"], WS % k)
                        if os.path.islink(lp) and not os.path.exists(lp):
                            stats.inc("probe_dangling_workspace_link")
        stats.inc("steps", sim.step)
        log = [(e[1], e[2], e[3]) for e in sim.log]
        names = [e[0] for e in log if e[1] not in ("start",)]
        comp = [n for i, n in enumerate(names) if i == 0 or names[i - 1] != n]
        gc_renames = [(a.name, h[0]) for a in sim.actors for h in a.history
                      if h[1] == "os.rename" and h[2] and isinstance(h[2][0], str) and h[2][0].endswith("-3")]
        return {"violation": viol, "digest": common.digest_of(log), "stats": dict(stats),
                "_gc_renames": gc_renames, "_decisions": list(sim.decisions),
                "nontrivial": len(comp) >= 3, "sim_time": float(sim.step),
                "sample": {"actors": case["actors"], "quota": case["quota"], "sizes": case["sizes"],
                           "store_exists": case["store_exists"], "directed": case.get("directed"),
                           "events": log[-90:], "results": results}}
    finally:
        if sim is not None:
            sim.shutdown()
        common.rmtree(root)

def _read_json_nolock(path):
    try:
        with open(path) as f:
            return json.load(f)
    except (FileNotFoundError, ValueError):
        return None

def _moved_in(root, rel):
    return os.path.isdir(os.path.join(root, rel[3:]))

def _links_to_path(root, case, k):
    out = []
    for a in case["actors"]:
        lp = os.path.join(root, a["name"], WS % k)
        if os.path.islink(lp) and os.readlink(lp).endswith(_store_path(root, k)[len(root):] + "/workspace"):
            out.append(a["name"])
    return out

def _check_lru(st, case, npk, last_use=None):
    """I5 for one finished gc run."""
    removed = st["removed"]
    pk = st["pkgs"]
    cands = {k: v for k, v in pk.items() if not v["links"] and k != st.get("new")}
    for k in removed:
        if k not in cands:
            if k == st.get("new"):
                return {"kind": "gc-removed-new-package", "detail": "pkg%d just installed by the same process" % k}
            continue    # used ones are reported by I3
    # packages that got a link while the gc was running may be kept (the gc
    # may or may not have seen the link); they never count as "unused but kept"
    kept = [k for k in cands if k not in removed and k not in st.get("linked_during", ())]
    for r in removed:
        for c in kept:
            if pk[r]["mtime"] > pk[c]["mtime"]:
                return {"kind": "gc-not-oldest-first",
                        "detail": "removed pkg%d (mtime %d) but kept older unused pkg%d (mtime %d)" % (
                            r, pk[r]["mtime"], c, pk[c]["mtime"])}
    if last_use:
        for r in removed:
            for c in kept:
                if r in last_use and c in last_use and last_use[r] > last_use[c]:
                    return {"kind": "gc-not-least-recently-used-first",
                            "detail": "removed pkg%d (last used at step %d) but kept the unused pkg%d that was last used earlier (step %d)" % (
                                r, last_use[r], c, last_use[c])}
    quota = case["quota"]
    if st["all"]:
        if kept:
            return {"kind": "gc-all-unused-incomplete", "detail": "unused packages %s kept" % kept}
        return None
    if quota is None:
        if removed:
            return {"kind": "gc-removed-without-quota", "detail": str(removed)}
        return None
    remaining = st["repoSize"] - sum(pk[k]["size"] for k in removed)
    if removed:
        newest = max(removed, key=lambda k: pk[k]["mtime"])
        if remaining + pk[newest]["size"] <= quota:
            return {"kind": "gc-removed-too-much",
                    "detail": "quota %d already met before removing pkg%d (size before %d)" % (
                        quota, newest, st["repoSize"])}
    if remaining > quota and kept and (st["auto"] or True):
        return {"kind": "gc-stopped-early",
                "detail": "size %d still over quota %d but unused packages %s were kept" % (remaining, quota, kept)}
    return None

def fixup(case):
    if not case["actors"]:
        return None
    return case
