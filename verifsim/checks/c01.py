"""C01 Incremental build equals clean build.

Engine A.  A generated project goes through a seeded edit history; after every
edit the same target is built incrementally in the same workspace under the
simulated event loop (seeded schedule, -j1..4, develop or release mode) and the
content of every package result is compared -- by the independent canonical
tree serialisation -- with a from-scratch `-j1` build of the same project state
in an empty, differently named directory.  An immediately repeated build must
execute no build/package script and no deterministic checkout script (observed
at the subprocess seam).
"""

import os

from .. import common, projgen, buildsim, bobq

PROPERTY = "C01"
LEVEL = "exploration"
RULE = ("case = generated project (3..7 recipes, swarm-selected features: import sources, checkout scripts, "
        "variables, provided vars/tools/deps, classes, shared, forward, dep environments) + edit history "
        "(script salt, variable value/list, default.yaml, dependency add/remove/reorder/re-parameterise, "
        "provided vars, tool libs, source add/modify/delete incl. same-size, class edit, revert) + per-build "
        "schedule seed and job count; non-trivial = at least one incremental build re-executed some but not "
        "all steps; distinct = digest of the per-build executed-script lists")
COMPONENTS = {"real": ["bob CLI (dev/build) end to end: input, builder, state, invoker, languages, utils.DirHasher, "
                       "scm.imp, audit", "bash step scripts", "tmpfs"],
              "stub": ["asyncio loop clock and subprocess/executor completion order (SimLoop)", "process pool (inline)",
                       "TUI output captured"],
              "not_exercised": ["sandbox", "git/url/svn SCMs (C12 covers git)", "archives (C07)"]}
ASSUMPTIONS = ["step scripts are deterministic and idempotent over their own output (generator contract)",
               "file modifications change stat data (fresh mtime from the simulated clock for every rewritten file)"]
SHRINK = ["edits"]

def plan(tier):
    if tier == "thorough":
        return {"cases": 3000, "timeout": 600, "wall_budget": 1700, "recheck": 6, "nproc": 6}
    return {"cases": 80, "timeout": 400, "wall_budget": 120, "recheck": 2, "nproc": 6}

def gen_case(rng, tier, index):
    model = projgen.gen_valid_project(rng)
    nedits = rng.choice([2, 3, 4, 6])
    edits = []
    hist = [model]
    cur = model
    for _ in range(nedits):
        e = projgen.gen_edit(rng, cur, hist)
        if e is None:
            continue
        cur = projgen.apply_edit(cur, e, hist)
        hist.append(cur)
        edits.append({"edit": e, "jobs": rng.choice([1, 1, 2, 4]), "sched_seed": rng.getrandbits(32),
                      "repeat": rng.random() < 0.35})
        if e["kind"] == "src_modify" and rng.random() < 0.4 and cur["recipes"].get(e["path"].split("/")[1], {}).get("build"):
            # this edit breaks the build; the user takes it back (develop-mode path pattern: harmless no-op otherwise)
            edits[-1]["broken"] = {"match": "/%s/%s/" % (rng.choice(["build", "dist"]), e["path"].split("/")[1]), "at": rng.randint(2, 10)}
            edits[-1]["repeat"] = False
            rv = {"kind": "revert", "to": len(hist) - 2}
            cur = projgen.apply_edit(cur, rv, hist)
            hist.append(cur)
            edits.append({"edit": rv, "jobs": 1, "sched_seed": rng.getrandbits(32), "repeat": rng.random() < 0.5})
    return {"model": model, "edits": edits, "develop": rng.random() < 0.7,
            "jobs0": rng.choice([1, 2, 4]), "seed0": rng.getrandbits(32)}

def directed_cases(tier):
    """Edits that change nothing but the Variant-Id of a deterministic checkout (script text,
    value of a variable only the checkout consumes) and their reverts, in develop mode where
    the source directory is kept."""
    import random
    rng = random.Random(101)
    out = []
    want = 16 if tier == "thorough" else 4
    tries = 0
    while len(out) < want and tries < 300:
        tries += 1
        model = projgen.gen_valid_project(rng, features={"checkoutscript", "vars", "diamond"} | set(rng.sample(
            ["tools", "classes", "depenv", "provideVars", "import"], rng.randint(0, 2))))
        cands = [n for n in model["order"] if model["recipes"][n]["src"] == "script"]
        if not cands:
            continue
        n = rng.choice(cands)
        r = model["recipes"][n]
        edits = [{"kind": "salt", "recipe": n, "step": "checkout", "value": "%x" % rng.getrandbits(24)}]
        v = rng.choice(projgen.VARPOOL)
        if v not in r["checkoutVars"]:
            edits.append({"kind": "var_list", "recipe": n, "list": "checkoutVars", "var": v})
        edits.append({"kind": "default_env", "var": v, "value": "dd%d" % rng.randrange(1000)})
        edits.append({"kind": "revert", "to": 0})
        out.append({"model": model, "develop": True, "jobs0": 1, "seed0": rng.getrandbits(32),
                    "edits": [{"edit": e, "jobs": rng.choice([1, 2]), "sched_seed": rng.getrandbits(32), "repeat": i == 0}
                              for i, e in enumerate(edits)],
                    "directed": "checkout-only edits of a deterministic checkout"})
    # an edit of an imported source breaks the build (the consuming step fails after partial output),
    # the edit is taken back, the incremental build must equal the clean build of the original state
    made = 0
    tries = 0
    while made < (8 if tier == "thorough" else 3) and tries < 200:
        tries += 1
        model = projgen.gen_valid_project(rng, features={"import", "vars", "diamond"} | set(rng.sample(["tools", "classes", "depenv"], rng.randint(0, 1))))
        e = projgen.gen_edit(rng, model, [model], ["src_modify"]) if model["sources"] else None
        if e is None:
            continue
        rn = e["path"].split("/")[1]
        if not model["recipes"][rn]["build"]:
            continue
        step = ["build", "dist"][made % 2]
        edits = [{"edit": e, "jobs": 1, "sched_seed": rng.getrandbits(32), "repeat": False,
                  "broken": {"match": "/%s/%s/" % (step, rn), "at": rng.randint(3, 9)}},
                 {"edit": {"kind": "revert", "to": 0}, "jobs": 1, "sched_seed": rng.getrandbits(32), "repeat": True}]
        out.append({"model": model, "develop": True, "jobs0": 1, "seed0": rng.getrandbits(32), "edits": edits,
                    "directed": "source edit breaks the build, edit taken back"})
        made += 1
    # content of a *tool* changes (source edit below the tool provider, no Variant-Id changes):
    # every step that uses the tool has to re-run
    for k in range(4 if tier == "thorough" else 2):
        gen = projgen._leaf(rng); gen["src"] = "import"
        gen["provideTools"] = {"tool_gen": {"path": ".", "libs": []}}
        lib = projgen._leaf(rng)
        user = projgen._leaf(rng)
        user["depends"] = [{"name": "gen", "use": ["tools"]}, {"name": "lib", "use": ["result", "deps"]}]
        user["buildTools" if k % 2 == 0 else "packageTools"] = ["tool_gen"]
        root = projgen._leaf(rng)
        root["depends"] = [{"name": "user", "use": ["result", "deps"]}]
        if k >= 2:
            root["depends"].insert(0, {"name": "gen", "use": ["tools"], "forward": True})
            user["depends"] = user["depends"][1:]
        model = {"recipes": {"root": root, "user": user, "gen": gen, "lib": lib}, "classes": {}, "default_env": {},
                 "sources": {"src/gen/f0.txt": "gen-file0-%x\n" % rng.getrandbits(16), "src/gen/f1.txt": "gen-file1\n"},
                 "order": ["root", "user", "gen", "lib"], "features": ["directed-tool-content"]}
        edits = [{"kind": "src_modify", "path": "src/gen/f0.txt", "content": "mod-%x\n" % rng.getrandbits(24), "same_size": False},
                 {"kind": "src_add", "path": "src/gen/n1.txt", "content": "new-%x\n" % rng.getrandbits(24)},
                 {"kind": "src_delete", "path": "src/gen/f1.txt"},
                 {"kind": "tool_path", "recipe": "gen", "tool": "tool_gen", "path": "sub"},
                 {"kind": "tool_libs", "recipe": "gen", "tool": "tool_gen", "libs": ["lib"]},
                 {"kind": "revert", "to": 1}]
        out.append({"model": model, "develop": k % 2 == 0 or k >= 2, "jobs0": 1, "seed0": rng.getrandbits(32),
                    "edits": [{"edit": e, "jobs": rng.choice([1, 2]), "sched_seed": rng.getrandbits(32), "repeat": i == 1}
                              for i, e in enumerate(edits)],
                    "directed": "content of a tool changes"})
    return out

def run_case(case):
    top = common.scratch_dir("c01-%d" % os.getpid())
    stats = common.Counter()
    log = []
    viol = None
    develop = case["develop"]
    cmd = ["dev"] if develop else ["build", "--no-sandbox"]
    try:
        proj = os.path.join(top, "w", "proj")
        os.makedirs(proj)
        clock = projgen.StampClock()
        oracle = buildsim.CleanOracle(top, develop)
        model = case["model"]
        hist = [model]
        files = projgen.materialise(model, proj, clock)
        steps = [{"edit": None, "jobs": case["jobs0"], "sched_seed": case["seed0"], "repeat": True}] + case["edits"]
        for n, st in enumerate(steps):
            if st["edit"] is not None:
                new = projgen.apply_edit(model, st["edit"], hist)
                hist.append(new)
                files = projgen.materialise(new, proj, clock, files)
                model = new
                stats.inc("edit_" + st["edit"]["kind"])
            if st.get("broken"):
                # the edit "broke the build": the step that consumes the edited source fails after partial
                # output (failure attributed to the new input; the next edit takes it back)
                b = st["broken"]
                rb = buildsim.bob(proj, cmd + ["-j", str(st["jobs"]), "root"],
                                  {"sched_seed": st["sched_seed"], "script_faults": [{"nth": None, "match": b["match"], "at": b["at"], "kind": "exit"}]})
                fired = any(e[0] == "script-fault-fired" for e in rb.events)
                log.append((n, "broken", rb.rc, fired))
                stats.inc("builds_failing_because_of_the_edit" if fired else "broken_edit_did_not_fail")
                if fired and rb.rc == 0:
                    viol = {"kind": "failed-step-ignored", "detail": "build %d: step %s failed, exit status 0" % (n, b["match"])}
                    break
                if fired:
                    continue
            r = buildsim.bob(proj, cmd + ["-j", str(st["jobs"]), "root"], {"sched_seed": st["sched_seed"]})
            ran = buildsim.step_scripts(r)
            log.append((n, r.rc, sorted(s for _, s in ran)))
            stats.inc("builds")
            stats.inc("scripts_run", len(ran))
            clean = oracle.get(model)
            if r.rc != 0 or clean["rc"] != 0:
                if r.rc != 0 and clean["rc"] != 0:
                    stats.inc("invalid_project_state")      # broken by the edit: both fail
                    continue
                viol = {"kind": "exit-status-differs",
                        "detail": "build %d: incremental rc=%d clean rc=%d; edit=%s; incremental output: %s; clean output: %s" % (
                            n, r.rc, clean["rc"], st["edit"], r.output[-600:], clean["output"][-600:])}
                break
            mapping = buildsim.dist_map(proj, develop)
            res = buildsim.results_of(proj, mapping)
            diffs = buildsim.compare(res, clean["results"])
            if diffs:
                viol = {"kind": "incremental-differs-from-clean",
                        "detail": "after build %d (edit %s, -j%d): %s" % (n, st["edit"], st["jobs"], diffs)}
                break
            nsteps = sum(1 for e in mapping.values() for s in e["steps"].values() if s.get("valid"))
            if 0 < len(ran) < nsteps and n > 0:
                stats.inc("partial_rebuilds")
            if st.get("repeat"):
                r2 = buildsim.bob(proj, cmd + ["-j", str(st["jobs"]), "root"], {"sched_seed": st["sched_seed"] ^ 1})
                stats.inc("repeat_builds")
                det = {}
                detail = bobq.query(proj, develop=develop, want=("detail",))
                for ent in detail.values():
                    s = ent["steps"]["src"]
                    if s.get("valid") and s.get("ws"):
                        det[os.path.dirname(s["ws"])] = s.get("deterministic")
                bad = []
                for label, script in buildsim.step_scripts(r2):
                    d = os.path.dirname(script)
                    if label in ("build", "dist"):
                        bad.append(script)
                    elif label == "src" and det.get(d) is True:
                        bad.append(script)
                log.append((n, "repeat", r2.rc, sorted(bad)))
                if r2.rc != 0:
                    viol = {"kind": "repeat-build-failed", "detail": r2.output[-800:]}
                    break
                if bad:
                    viol = {"kind": "repeat-build-reexecutes",
                            "detail": "unchanged project, second build %d re-executed %s" % (n, bad)}
                    break
        stats.inc("clean_builds", oracle.runs)
    finally:
        common.rmtree(top)
    return {"violation": viol, "digest": common.digest_of(log), "stats": dict(stats),
            "nontrivial": stats.get("partial_rebuilds", 0) > 0,
            "sim_time": float(stats.get("builds", 0)),
            "sample": {"features": case["model"].get("features"), "recipes": len(case["model"]["recipes"]),
                       "develop": develop, "edits": [e["edit"] for e in case["edits"]], "log": log[:6]}}
