"""C07 Binary artifacts are reused exactly when they are the right ones.

Engine A with two or three project directories at different absolute paths that
share one file archive.  Each workspace follows its own edit history; builds
run with uploads and with the download modes yes / deps / forced / forced-deps
/ forced-fallback / packages=RE, on emulated hosts (fingerprint scripts read a
host id file; fingerprinted build scripts put the host id into their result).

Oracle 1 (honest archive: only artifacts that real invocations of any project
state uploaded): every invocation that succeeds yields package results equal
to a purely local clean build of *its own* project state on *its own* host --
by content, so a stale or foreign artifact is visible -- and non-forced modes
must succeed.  Forced modes may fail (artifact legitimately missing).
Oracle 2: a workspace whose project state and host equal those of a workspace
that uploaded everything downloads with `--download forced` without executing
a single build or package script.
Fault configuration (byzantine archive, kept apart): an artifact is truncated,
bit-flipped or deleted between invocations.  The invocation may then fail with
a build error, but if it succeeds oracle 1 still holds, and after removing the
damaged file the next invocation succeeds and holds too.
Live-build-id scenario (`_run_live`): a git source with a branch, live Build-Id
prediction through `git ls-remote`, and a world hook that moves the upstream
branch right after the prediction; the invocation must restart the affected
packages and end with the result of the commit it really checked out.
"""

import os

from .. import common, projgen, buildsim, bobq, treecmp

PROPERTY = "C07"
LEVEL = "exploration"
RULE = ("case = generated project (fingerprinted and non-relocatable recipes, import sources, tools) + per-workspace "
        "edit histories + invocations (workspace, host, upload flag, download mode) + optional archive damage; "
        "non-trivial = at least one package was downloaded by a workspace that did not build it; distinct = digest "
        "of the (workspace, host, mode, rc, scripts run, downloaded count) sequence")
COMPONENTS = {"real": ["bob dev with --upload/--download", "builder._getBuildId/_downloadPackage/_getFingerprint", "intermediate.getDigestCoro",
                       "archive.LocalArchive up/download incl. extraction and audit verification"],
              "stub": ["event loop (SimLoop), process pool inline", "host identity = content of a file read by fingerprint scripts"],
              "not_exercised": ["url/svn live-build-ids (git only)", "concurrent uploader/downloader (C09)", "http/azure back ends"]}
ASSUMPTIONS = ["a fingerprint script reports everything host dependent that the build consumes",
               "scripts are deterministic"]
SHRINK = ["ops"]

MODES = ["yes", "deps", "forced", "forced-deps", "forced-fallback", "packages=r[12]", "no"]

def plan(tier):
    if tier == "thorough":
        return {"cases": 2000, "timeout": 600, "wall_budget": 1700, "recheck": 5, "nproc": 6}
    return {"cases": 60, "timeout": 400, "wall_budget": 120, "recheck": 2, "nproc": 6}

def gen_case(rng, tier, index):
    if index % 5 == 4:
        # live-build-id scenario: git source, prediction by `git ls-remote`, upstream may move
        # right after the prediction (wrong prediction -> Bob must restart)
        c = {"live": True, "move": rng.choice(["after-lsremote", "after-lsremote", "before", "never"]),
             "drop": rng.choice([["lib", "root"], ["lib"], ["root"], []]), "jobs": rng.choice([1, 2, 4]),
             "seed": rng.getrandbits(32), "mode": rng.choice(["yes", "yes", "deps", "forced-fallback"]),
             "salt": "%x" % rng.getrandbits(20)}
        if rng.random() < 0.35:
            # the archive already holds everything for the commit the upstream moves to: after the
            # restart the downloader must take it from there
            c.update({"prefilled": True, "move": "after-lsremote", "mode": "yes",
                      "drop": rng.choice([["lib", "root"], ["lib", "root"], ["lib", "mid", "root"]])})
        elif rng.random() < 0.4:
            # the uploader edits its checkout (uncommitted) and builds/uploads again: what the archive
            # says about the upstream *commit* must stay what the commit contains
            c.update({"hack": True, "move": rng.choice(["never", "never", "after-lsremote"]), "drop": rng.choice([[], [], ["root"]])})
        return c
    feats = {"checkoutscript"} | set(rng.sample(["import", "vars", "tools", "provideVars", "diamond", "fingerprint", "fingerprint",
                                                 "nonreloc", "depenv", "classes", "twins"], rng.randint(2, 6)))
    model = projgen.gen_valid_project(rng, nmin=3, nmax=6, features=feats)
    wss = ["A", "B", "C"][: rng.choice([2, 2, 3])]
    states = {w: model for w in wss}
    hists = {w: [model] for w in wss}
    ops = [{"ws": "A", "host": "h1", "upload": True, "mode": "no", "jobs": rng.choice([1, 2]), "seed": rng.getrandbits(32)}]
    for _ in range(rng.choice([2, 3, 4, 6])):
        w = rng.choice(wss)
        r = rng.random()
        if r < 0.35:
            e = projgen.gen_edit(rng, states[w], hists[w])
            if e is not None:
                states[w] = projgen.apply_edit(states[w], e, hists[w])
                hists[w].append(states[w])
                ops.append({"ws": w, "edit": e})
        elif r < 0.45 and len(wss) > 1:
            # bring a workspace to the state of another one (e.g. git pull of the recipes)
            src = rng.choice([x for x in wss if x != w])
            ops.append({"ws": w, "sync_from": src})
            states[w] = states[src]
            hists[w].append(states[w])
        ops.append({"ws": w, "host": rng.choice(["h1", "h1", "h2"]), "upload": rng.random() < 0.6,
                    "mode": rng.choice(MODES), "jobs": rng.choice([1, 2, 4]), "seed": rng.getrandbits(32)})
    case = {"model": model, "wss": wss, "ops": ops}
    if rng.random() < 0.5:
        # oracle-2 tail: A uploads everything, B is synced to A and must download without building
        # (Bob uploads what it builds, so the uploader starts from an empty workspace)
        ops.append({"ws": "A", "host": "h1", "upload": True, "mode": "no", "jobs": 2, "seed": rng.getrandbits(32), "fresh": True})
        ops.append({"ws": "B", "sync_from": "A"})
        ops.append({"ws": "B", "host": "h1", "upload": False, "mode": "forced", "jobs": rng.choice([1, 2]),
                    "seed": rng.getrandbits(32), "expect_all_downloaded": True, "fresh": rng.random() < 0.5})
    if rng.random() < 0.25:
        case["damage"] = {"before_op": rng.randrange(1, len(ops) + 1), "kind": rng.choice(["truncate", "flip", "delete", "repack", "repack"]),
                          "pick": rng.getrandbits(16), "pos": rng.random()}
    # some invocations run without audit trail generation (-A): downloads must be verified all the same
    for i, o in enumerate(ops):
        if "mode" in o and o["mode"] != "no" and not o.get("upload"):
            if rng.random() < (0.5 if case.get("damage", {}).get("before_op") == i else 0.1):
                o["no_audit"] = True
    return case

def directed_cases(tier):
    """Wrong live-build-id prediction with an archive that already holds everything for the
    commit that is really checked out: after the restart nothing may be built."""
    out = [{"live": True, "prefilled": True, "move": "after-lsremote", "mode": "yes", "drop": d, "jobs": j,
            "seed": 7 + j, "salt": "d%d" % j}
           for d, j in ((["lib", "root"], 1), (["lib", "mid", "root"], 4))]
    out += [{"live": True, "hack": True, "move": "never", "mode": m, "drop": [], "jobs": 1, "seed": 11, "salt": "h%d" % i}
            for i, m in enumerate(("yes", "deps"))]
    # a workspace that got everything by download (never checked anything out, only predictions are
    # stored), then a source edit with unchanged recipes, then another download-enabled build
    import random
    rng = random.Random(707)
    tries = 0
    while len(out) < (8 if tier == "thorough" else 4) and tries < 200:
        tries += 1
        model = projgen.gen_valid_project(rng, nmin=3, nmax=5, features={"import", "diamond"} | set(rng.sample(
            ["vars", "tools", "fingerprint", "classes"], rng.randint(0, 2))))
        if not model["sources"] or not all_reloc(model):
            continue
        e = projgen.gen_edit(rng, model, [model], ["src_modify", "src_add"])
        if e is None:
            continue
        mode2 = rng.choice(["yes", "deps", "forced-fallback", "yes"])
        ops = [{"ws": "A", "host": "h1", "upload": True, "mode": "no", "jobs": 2, "seed": rng.getrandbits(32), "fresh": True},
               {"ws": "B", "host": "h1", "upload": False, "mode": "forced", "jobs": 1, "seed": rng.getrandbits(32),
                "expect_all_downloaded": True, "fresh": True},
               {"ws": "B", "edit": e},
               {"ws": "B", "host": "h1", "upload": False, "mode": mode2, "jobs": rng.choice([1, 2]), "seed": rng.getrandbits(32)},
               {"ws": "A", "sync_from": "B"},
               {"ws": "A", "host": "h1", "upload": True, "mode": "no", "jobs": 1, "seed": rng.getrandbits(32)},
               {"ws": "B", "host": "h1", "upload": False, "mode": "yes", "jobs": 1, "seed": rng.getrandbits(32)}]
        out.append({"model": model, "wss": ["A", "B"], "ops": ops, "directed": "download-only workspace, then source edit"})
    # a package that is fingerprinted AND not relocatable: another location must build it itself
    for k in range(2):
        lib = projgen._leaf(rng); lib["fingerprint"] = True; lib["relocatable"] = False
        plain = projgen._leaf(rng); plain["relocatable"] = False
        root = projgen._leaf(rng)
        root["depends"] = [{"name": "lib", "use": ["result", "deps"]}, {"name": "plain", "use": ["result", "deps"]}]
        if k:
            root["fingerprint"] = True
        model = {"recipes": {"root": root, "lib": lib, "plain": plain}, "classes": {}, "default_env": {}, "sources": {},
                 "order": ["root", "lib", "plain"], "features": ["directed-nonreloc-fingerprinted"]}
        ops = [{"ws": "A", "host": "h1", "upload": True, "mode": "no", "jobs": 1, "seed": rng.getrandbits(32), "fresh": True},
               {"ws": "B", "host": "h1", "upload": False, "mode": rng.choice(["yes", "deps"]), "jobs": 1, "seed": rng.getrandbits(32), "fresh": True},
               {"ws": "B", "host": "h1", "upload": True, "mode": "yes", "jobs": 1, "seed": rng.getrandbits(32), "fresh": True},
               {"ws": "B", "host": "h1", "upload": False, "mode": "yes", "jobs": 1, "seed": rng.getrandbits(32), "fresh": True}]
        out.append({"model": model, "wss": ["A", "B"], "ops": ops, "directed": "fingerprinted and non-relocatable package, two locations"})
    # a damaged artifact met by an invocation that runs without audit trail generation
    for kind, pos in (("repack", 0.55), ("repack", 0.1), ("flip", 0.8)):
        model = projgen.gen_valid_project(rng, nmin=3, nmax=4, features={"import", "vars"})
        ops = [{"ws": "A", "host": "h1", "upload": True, "mode": "no", "jobs": 1, "seed": rng.getrandbits(32), "fresh": True},
               {"ws": "B", "host": "h1", "upload": False, "mode": "yes", "jobs": 1, "seed": rng.getrandbits(32), "fresh": True, "no_audit": True}]
        out.append({"model": model, "wss": ["A", "B"], "ops": ops, "directed": "damaged artifact, download without audit generation",
                    "damage": {"before_op": 1, "kind": kind, "pick": rng.getrandbits(16), "pos": pos}})
    return out

def all_reloc(model):
    """A non-relocatable package tags its Build-Id (and that of everything depending
    on it) with its absolute path: such artifacts are legitimately not shared between
    workspaces at different locations."""
    return all(r.get("relocatable") is not False for r in model["recipes"].values())

def _upstream_moves(arg):
    """World hook (runs inside the Bob child right after `git ls-remote`): the
    upstream maintainer pushes a new commit."""
    import subprocess
    from .. import loopsim
    env = dict(loopsim.BASE_ENV)
    env["GIT_AUTHOR_DATE"] = env["GIT_COMMITTER_DATE"] = "2020-02-02T00:00:00Z"
    w = arg["work"]
    if arg.get("push_existing"):
        subprocess.run(["git", "push", "-q", "origin", "%s:master" % arg["push_existing"]], cwd=w, env=env,
                       stdin=subprocess.DEVNULL, stdout=subprocess.DEVNULL, stderr=subprocess.DEVNULL)
        return
    with open(os.path.join(w, "a.txt"), "w") as f:
        f.write("moved-%s\n" % arg["salt"])
    for cmd in (["git", "commit", "-q", "-am", "moved"], ["git", "push", "-q", "origin", "master"]):
        subprocess.run(cmd, cwd=w, env=env, stdin=subprocess.DEVNULL, stdout=subprocess.DEVNULL, stderr=subprocess.DEVNULL)

def _run_live(case, top, stats, log):
    import gzip, io, json, tarfile, subprocess, yaml
    from .. import loopsim
    env = dict(loopsim.BASE_ENV)
    def git(cwd, *a):
        p = subprocess.run(["git"] + list(a), cwd=cwd, env=env, stdin=subprocess.DEVNULL, stdout=subprocess.PIPE, stderr=subprocess.PIPE)
        if p.returncode != 0:
            raise common.HarnessError("git %s: %s" % (a, p.stderr.decode()[-200:]))
    bare = os.path.join(top, "up", "lib.git")
    work = os.path.join(top, "upwork")
    os.makedirs(work); os.makedirs(os.path.dirname(bare))
    git(work, "init", "-q", "-b", "master")
    common.write_file(os.path.join(work, "a.txt"), "v1-%s\n" % case["salt"])
    git(work, "add", "-A"); git(work, "commit", "-q", "-m", "c1")
    git(top, "clone", "-q", "--bare", work, bare)
    git(work, "remote", "add", "origin", bare)
    arch = os.path.join(top, "archive")
    os.makedirs(arch)
    D = projgen.DUMP_FN
    files = {
        "config.yaml": yaml.safe_dump({"bobMinimumVersion": "1.3.dev999"}),
        "default.yaml": yaml.safe_dump({"archive": {"backend": "file", "path": arch}}),
        "recipes/lib.yaml": yaml.safe_dump({"checkoutSCM": {"scm": "git", "url": bare, "branch": "master"},
                                            "buildScript": "IFS= read -r x < \"$1/a.txt\"\necho \"lib built from $x\" > b.txt\n",
                                            "packageScript": D + "__dump \"$1\" > p.txt\n"}),
        "recipes/mid.yaml": yaml.safe_dump({"depends": ["lib"], "buildScript": D + "__dump \"$2\" > b.txt\n",
                                            "packageScript": D + "__dump \"$1\" > p.txt\n"}),
        "recipes/root.yaml": yaml.safe_dump({"root": True, "depends": ["mid", "lib"],
                                             "buildScript": D + "__dump \"$2\" > b.txt; __dump \"$3\" >> b.txt\n",
                                             "packageScript": D + "__dump \"$1\" > p.txt\n"}),
    }
    def mk(path):
        for p, c in files.items():
            common.write_file(os.path.join(path, p), c)
    pa = os.path.join(top, "a", "proj"); pb = os.path.join(top, "elsewhere", "b", "proj")
    mk(pa); mk(pb)
    r = buildsim.bob(pa, ["dev", "--upload", "--download", "no", "root"], {"sched_seed": 1})
    if r.rc != 0:
        raise common.HarnessError("uploader build failed: " + r.output[-400:])
    if case.get("hack"):
        # uncommitted local modification in the uploader's source workspace, second uploading build
        # (a git branch checkout runs on every invocation)
        common.write_file(os.path.join(pa, "dev", "src", "lib", "1", "workspace", "a.txt"), "uncommitted local hack %s\n" % case["salt"])
        r = buildsim.bob(pa, ["dev", "--upload", "--download", "no", "root"], {"sched_seed": 3})
        if r.rc != 0:
            raise common.HarnessError("uploader build with modified checkout failed: " + r.output[-400:])
        stats.inc("live_uploader_built_from_modified_checkout")
    old_arts = set(_artifacts(arch))
    arg = {"work": work, "salt": case["salt"]}
    if case.get("prefilled"):
        # the uploader also builds and uploads the next upstream commit, then the upstream is
        # rewound: the downloader will predict the old commit and find the new one
        c1 = subprocess.run(["git", "rev-parse", "HEAD"], cwd=work, env=env, stdout=subprocess.PIPE).stdout.decode().strip()
        _upstream_moves(arg)
        c2 = subprocess.run(["git", "rev-parse", "HEAD"], cwd=work, env=env, stdout=subprocess.PIPE).stdout.decode().strip()
        r = buildsim.bob(pa, ["dev", "--upload", "--download", "no", "root"], {"sched_seed": 2})
        if r.rc != 0:
            raise common.HarnessError("second uploader build failed: " + r.output[-400:])
        if len(set(_artifacts(arch)) - old_arts) < 3:
            raise common.HarnessError("second uploader build did not upload the new commit's artifacts")
        git(work, "push", "-q", "-f", "origin", "%s:master" % c1)
        arg["push_existing"] = c2
    # remove selected artifacts so that the downloader has to build (and check out) something
    for art in sorted(old_arts):
        try:
            with tarfile.open(art, "r:gz") as tf:
                meta = json.loads(gzip.decompress(tf.extractfile("meta/audit.json.gz").read()))["artifact"]["meta"]
        except Exception:
            continue
        if meta.get("recipe") in case["drop"]:
            os.unlink(art)
            stats.inc("live_artifacts_dropped")
    cfg = {"sched_seed": case["seed"], "durations": [0, 0.001, 1]}
    if case["move"] == "before":
        _upstream_moves(arg)
    elif case["move"] == "after-lsremote":
        cfg["after_run_hooks"] = [{"match": "ls-remote", "call": "verifsim.checks.c07:_upstream_moves", "arg": arg}]
    r = buildsim.bob(pb, ["dev", "-j", str(case["jobs"]), "--download", case["mode"], "root"], cfg)
    moved = any(e[0] == "world-hook" for e in r.events)
    restarted = "Restart build due to wrongly predicted sources" in r.output
    log.append(("live", case["move"], case["drop"], r.rc, moved, restarted))
    stats.inc("live_cases")
    if moved:
        stats.inc("fault_upstream_moved_after_prediction")
    if restarted:
        stats.inc("probe_restart_due_to_wrong_prediction")
    if any(e[0] == "DEADLOCK" for e in r.events):
        return {"kind": "deadlock", "detail": "downloader starved"}
    if r.rc != 0:
        # forced-fallback forces the download of every dependency: it legitimately fails when the
        # archive cannot have the artifact (upstream moved to a commit nobody uploaded, or the
        # artifact of lib was removed)
        if case["mode"] == "forced-fallback" and (case["move"] != "never" or "lib" in case["drop"]) \
                and "ownload" in r.output:
            stats.inc("probe_forced_download_legitimately_failed")
            return None
        return {"kind": "download-build-failed", "detail": "live scenario %s: rc=%d %s" % (log[-1], r.rc, r.output[-900:])}
    if case.get("prefilled"):
        stats.inc("live_prefilled_cases")
        ran = [sc for lab, sc in buildsim.step_scripts(r) if lab in ("build", "dist")]
        if restarted and ran:
            return {"kind": "built-although-artifact-available",
                    "detail": "live-build-id scenario: the archive holds every artifact of the commit that was really checked out, "
                              "but after the restart (wrong prediction) the downloader executed %s instead of downloading" % sorted(ran)}
        if restarted:
            stats.inc("probe_downloaded_everything_after_restart")
    # local clean build at the upstream state that the downloader ended up with
    pc = os.path.join(top, "clean", "proj")
    mk(pc)
    # the downloader may legitimately be on the commit it predicted *or* on the new one; pin the
    # clean build to the commit the downloader's lib sources are at (if it has sources), else to
    # the mapping it predicted (old commit)
    src = os.path.join(pb, "dev", "src", "lib", "1", "workspace")
    if os.path.isdir(os.path.join(src, ".git")):
        c = subprocess.run(["git", "rev-parse", "HEAD"], cwd=src, env=env, stdout=subprocess.PIPE).stdout.decode().strip()
    else:
        c = subprocess.run(["git", "rev-parse", "HEAD~1" if moved or case["move"] == "before" else "HEAD"], cwd=work, env=env,
                           stdout=subprocess.PIPE).stdout.decode().strip()
        if case["move"] == "before":
            c = subprocess.run(["git", "rev-parse", "HEAD"], cwd=work, env=env, stdout=subprocess.PIPE).stdout.decode().strip()
    lib = yaml.safe_load(files["recipes/lib.yaml"])
    lib["checkoutSCM"] = {"scm": "git", "url": bare, "commit": c}
    # same scripts, pinned commit: the *content* of all results must be the same
    common.write_file(os.path.join(pc, "recipes/lib.yaml"), yaml.safe_dump(lib))
    common.write_file(os.path.join(pc, "default.yaml"), "{}\n")
    rc_ = buildsim.bob(pc, ["dev", "--download", "no", "root"], {"durations": [0]})
    if rc_.rc != 0:
        raise common.HarnessError("clean live build failed: " + rc_.output[-400:])
    info = bobq.query(pb, want=("detail", "bid"))
    visited = buildsim.visited_workspaces(info)
    a = buildsim.results_of(pb, info)
    b = buildsim.results_of(pc, buildsim.dist_map(pc, True))
    # (below a downloaded package nothing is built or checked: stale directories may remain there)
    a = {k: v for k, v in a.items() if v is not None and info[k]["steps"]["dist"]["ws"] in visited}
    diffs = buildsim.compare(a, {k: v for k, v in b.items() if k in a})
    if diffs or "root" not in a:
        return {"kind": "downloaded-result-differs-from-local-build",
                "detail": "live-build-id scenario (upstream move %s, dropped %s, mode %s, restarted=%s): results are not those of a "
                          "consistent build of commit %s: %s" % (case["move"], case["drop"], case["mode"], restarted, c[:10], diffs)}
    return None

def _repack_flip(data, pos):
    """Decompress, flip one byte inside the data of a content member, compress again."""
    import gzip, io, tarfile
    try:
        raw = bytearray(gzip.decompress(data))
        with tarfile.open(fileobj=io.BytesIO(bytes(raw)), mode="r:") as tf:
            cands = [m for m in tf.getmembers() if m.isfile() and m.size > 0 and m.name.startswith("content/")]
        if not cands:
            return None
        m = cands[int(pos * len(cands)) % len(cands)]
        raw[m.offset_data + int(pos * m.size) % m.size] ^= 0x01
        buf = io.BytesIO()
        with gzip.GzipFile(fileobj=buf, mode="wb", mtime=0) as gz:
            gz.write(bytes(raw))
        return buf.getvalue()
    except Exception:
        return None

def _artifacts(arch):
    out = []
    for root, dirs, files in os.walk(arch):
        for f in sorted(files):
            if f.endswith(".tgz"):
                out.append(os.path.join(root, f))
    return sorted(out)

def run_case(case):
    import re
    top = common.scratch_dir("c07-%d" % os.getpid())
    stats = common.Counter()
    log = []
    viol = None
    nontriv = False
    try:
        if case.get("live"):
            viol = _run_live(case, top, stats, log)
            return {"violation": viol, "digest": common.digest_of(log), "stats": dict(stats),
                    "nontrivial": bool(stats.get("fault_upstream_moved_after_prediction")),
                    "sample": {"live": {k: v for k, v in case.items()}, "log": log}}
        arch = os.path.join(top, "archive")
        os.makedirs(arch)
        hostfile = os.path.join(top, "hostid")
        projs = {"A": os.path.join(top, "a", "proj"), "B": os.path.join(top, "somewhere", "else", "proj"),
                 "C": os.path.join(top, "c-third", "proj")}
        base = dict(case["model"])
        base["hostfile"] = hostfile
        states, hists, mats, built_by = {}, {}, {}, {}
        own_uploads = {}    # workspace -> dist directories it has ever uploaded from
        for w in case["wss"]:
            os.makedirs(projs[w])
            states[w] = base
            hists[w] = [base]
            mats[w] = None
        clock = projgen.StampClock()
        oracle = buildsim.CleanOracle(top, True, ["--download", "no"])
        extra = {"archive": {"backend": "file", "path": arch}}
        damaged = None
        for n, op in enumerate(case["ops"]):
            w = op["ws"]
            if w not in projs or w not in states:
                continue
            if "edit" in op:
                m2 = projgen.apply_edit(states[w], op["edit"], hists[w])
                m2["hostfile"] = hostfile
                states[w] = m2
                hists[w].append(m2)
                continue
            if "sync_from" in op:
                if op["sync_from"] in states:
                    states[w] = states[op["sync_from"]]
                    hists[w].append(states[w])
                continue
            dmg = case.get("damage")
            if dmg and dmg["before_op"] == n and damaged is None:
                arts = _artifacts(arch)
                if arts:
                    victim = arts[dmg["pick"] % len(arts)]
                    data = common.read_file(victim)
                    if dmg["kind"] == "truncate":
                        common.write_file(victim, data[: int(len(data) * dmg["pos"])])
                    elif dmg["kind"] == "repack" and data:
                        # a structurally valid artifact whose content no longer is what its audit trail records
                        new = _repack_flip(data, dmg["pos"])
                        if new is not None:
                            common.write_file(victim, new)
                    elif dmg["kind"] == "flip" and data:
                        i = int((len(data) - 1) * dmg["pos"])
                        common.write_file(victim, data[:i] + bytes([data[i] ^ 0x10]) + data[i + 1:])
                    else:
                        os.unlink(victim)
                    damaged = victim
                    stats.inc("fault_archive_" + dmg["kind"])
            proj = projs[w]
            model = dict(states[w])
            model["default_extra"] = extra
            if op.get("fresh"):
                common.rmtree(proj)
                os.makedirs(proj)
                mats[w] = None
            mats[w] = projgen.materialise(model, proj, clock, mats[w])
            common.write_file(hostfile, op["host"] + "\n")
            argv = ["dev", "-j", str(op["jobs"]), "--download", op["mode"]] + (["--upload"] if op["upload"] else []) + \
                   (["--no-audit"] if op.get("no_audit") else []) + ["root"]
            if op.get("no_audit"):
                stats.inc("invocations_without_audit")
            r = buildsim.bob(proj, argv, {"sched_seed": op["seed"]})
            ran = buildsim.step_scripts(r)
            m = re.search(r"(\d+) packages? built, (\d+) downloaded", r.output)
            ndl = int(m.group(2)) if m else 0
            log.append((n, w, op["host"], op["mode"], r.rc, len(ran), ndl))
            stats.inc("invocations")
            stats.inc("mode_" + op["mode"].split("=")[0])
            if ndl:
                stats.inc("packages_downloaded", ndl)
                nontriv = True
            # the clean local build must run on the same emulated host
            clean = oracle.get(states[w], key_extra=op["host"],
                               before=lambda: common.write_file(hostfile, op["host"] + "\n"))
            if clean["rc"] != 0:
                stats.inc("invalid_project_state")
                continue
            forced = op["mode"].startswith("forced")
            if r.rc != 0:
                if damaged is not None:
                    stats.inc("failed_with_damaged_archive")
                    # repair: remove the damaged file, then the build must work
                    if os.path.exists(damaged):
                        os.unlink(damaged)
                    r = buildsim.bob(proj, argv[:-1] + ["root"], {"sched_seed": op["seed"] ^ 3})
                    if r.rc != 0 and not forced:
                        viol = {"kind": "build-fails-after-archive-repair", "detail": "%s: %s" % (argv, r.output[-700:])}
                        break
                    if r.rc != 0:
                        continue
                elif forced and not (op.get("expect_all_downloaded") and all_reloc(states[w])):
                    stats.inc("forced_download_failed_legitimately")
                    continue
                else:
                    viol = {"kind": "download-build-failed",
                            "detail": "op %d ws %s host %s mode %s: rc=%d %s" % (n, w, op["host"], op["mode"], r.rc, r.output[-900:])}
                    break
            info = bobq.query(proj, want=("detail", "bid"))
            visited = buildsim.visited_workspaces(info)
            res = buildsim.results_of(proj, info)
            # only packages this invocation visited (below a downloaded package nothing is built
            # or checked, stale directories of earlier states may remain there)
            res_present = {k: v for k, v in res.items()
                           if v is not None and info[k]["steps"]["dist"]["ws"] in visited}
            cl = {k: v for k, v in clean["results"].items() if k in res_present}
            diffs = buildsim.compare(res_present, cl)
            if "root" not in res_present:
                diffs.append("root result missing")
            if diffs:
                viol = {"kind": "downloaded-result-differs-from-local-build",
                        "detail": "op %d ws %s host %s mode %s (%d downloaded): %s" % (n, w, op["host"], op["mode"], ndl, diffs)}
                break
            # a non-relocatable package is only valid at the location it was built at: this workspace may
            # download one only if it has uploaded that package itself at some time
            if op["upload"]:
                for lab, sc in ran:
                    if lab == "dist":
                        own_uploads.setdefault(w, set()).add(os.path.dirname(sc))
            for k, ent in info.items():
                d = ent["steps"]["dist"]
                if (d.get("valid") and d.get("ws") in visited and d.get("prov") == "downloaded"
                        and states[w]["recipes"].get(ent["recipe"], {}).get("relocatable") is False
                        and os.path.dirname(d["ws"]) not in own_uploads.get(w, ())):
                    viol = {"kind": "foreign-non-relocatable-artifact-taken",
                            "detail": "op %d ws %s mode %s: %s is not relocatable and was never uploaded from this location, "
                                      "yet its result was downloaded" % (n, w, op["mode"], k)}
                    break
            if viol:
                break
            stats.inc("nonreloc_download_rule_checked")
            if op.get("expect_all_downloaded") and damaged is None and all_reloc(states[w]):
                bad = [s for lab, s in ran if lab in ("build", "dist")]
                # fingerprinted or non-relocatable packages are host/path specific: same host here,
                # but a non-relocatable root legitimately cannot be shared between different paths
                root_reloc = True
                if bad and root_reloc:
                    viol = {"kind": "identical-workspace-rebuilds-instead-of-downloading",
                            "detail": "state and host identical to the uploader, --download forced, yet %s executed" % bad}
                    break
                stats.inc("oracle2_checked" if root_reloc else "oracle2_skipped_nonrelocatable")
    finally:
        common.rmtree(top)
    return {"violation": viol, "digest": common.digest_of(log), "stats": dict(stats), "nontrivial": nontriv,
            "sim_time": float(len(log)),
            "sample": {"features": case["model"].get("features"), "ops": [o for o in case["ops"] if "edit" not in o][:8],
                       "damage": case.get("damage"), "log": log}}
