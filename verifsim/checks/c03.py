"""C03 Package ids are pure, location independent and long-term stable.

What is simulated here is the *environment* of the id computation: every
evaluation runs in a fresh interpreter whose nondeterminism sources are owned
by the harness -- PYTHONHASHSEED, the order in which the recipe parser's
directory walks list files (os.walk seam in bob.input), the absolute project
location, file timestamps and creation order -- plus a second, bigger project
state that reaches the same packages more often, sandbox enabled/disabled, and
id-neutral edits (metaEnvironment, audit files, network access, job server,
value of a weakly consumed variable, variant of a weakly used tool for
Build-Ids).

Oracle: the dump {package path -> (Variant-Id, Build-Id) of src/build/dist}
(Build-Ids from StepIR.getDigestCoro with *supplied* source hashes) is
identical across all perturbed evaluations; for the reference project shipped
with the tree (test/black-box/stable-variant-ids) the output of the real
`bob project -n --sandbox dumper root-X` equals the recorded golden files under
every perturbation.

Honest note: the id-neutral edits are differential input testing riding on the
same harness; the claim rests on the perturbation of nondeterminism sources and
the golden ids.
"""

import json
import os
import shutil
import subprocess
import sys

from .. import common, projgen

PROPERTY = "C03"
LEVEL = "exploration"
RULE = ("case = generated project (tools, weak tools/variables, sandbox provider, classes, diamonds) + list of "
        "perturbations (hash seed, listing permutation, location, timestamps/creation order, sandbox flag, extra reaches, "
        "id-neutral edit) each evaluated in a fresh interpreter, or the shipped reference project under perturbations "
        "against its golden files; non-trivial = at least two evaluations differed in hash seed AND listing order AND "
        "location; distinct = digest of the base dump")
COMPONENTS = {"real": ["bob.input (parse, Recipe.prepare, CoreStep.getDigest), bob.intermediate.StepIR.getDigestCoro",
                       "bob project generator plugin 'dumper' of the reference project", "fresh CPython interpreter per evaluation"],
              "stub": ["directory listing order of the whole process (os.scandir/os.listdir seam: recipe walk, include globs)", "project location / timestamps (harness copies)"],
              "not_exercised": ["Windows platform tag", "git/url live build ids"]}
ASSUMPTIONS = ["Build-Ids are computed from supplied source hashes (a function of the checkout Variant-Id)"]
SHRINK = ["perturbations"]

REFROOTS = ["checkouts", "env", "include", "sandbox", "tools"]

def plan(tier):
    if tier == "thorough":
        return {"cases": 1500, "timeout": 600, "wall_budget": 1500, "recheck": 4, "nproc": 8}
    return {"cases": 60, "timeout": 400, "wall_budget": 60, "recheck": 2, "nproc": 8}

def _pert(rng):
    return {"hashseed": rng.randrange(1, 4000), "perm": rng.randrange(1, 1 << 30), "loc": rng.choice(["a", "deep/er/b", "x y"]),
            "touch": rng.random() < 0.5, "reverse_creation": rng.random() < 0.5}

def gen_case(rng, tier, index):
    if index % 6 == 5:
        return {"reference": True, "perturbations": [_pert(rng) for _ in range(2)], "root": rng.choice(REFROOTS)}
    feats = {"vars", "diamond"} | set(rng.sample(["tools", "weaktool", "sandbox", "weakvar", "classes", "depenv", "provideVars",
                                                  "checkoutscript", "import", "forward", "provideDeps", "inhtools", "substenv",
                                                  "include_files", "include_files"],
                                                 rng.randint(3, 8)))
    model = projgen.gen_valid_project(rng, nmin=4, nmax=7, features=feats)
    if index % 4 == 1:
        # a recipe that hands a tool on under another name, reached under two providers of that tool
        projgen.add_tool_remap(rng, model)
    perts = [_pert(rng) for _ in range(rng.choice([2, 3, 4]))]
    k = rng.random()
    extra = []
    for _ in range(rng.choice([1, 2])):
        r = rng.random()
        if r < 0.4:
            extra.append({"kind": "neutral", "edit": projgen.gen_neutral_edit(rng, model)})
        elif r < 0.55:
            extra.append({"kind": "sandbox"})
        elif r < 0.7:
            extra.append({"kind": "more-reaches"})
        elif r < 0.88:
            extra.append({"kind": "reached-earlier"})
        else:
            extra.append({"kind": "weaktool-variant"})
    if "toolremap" in model.get("features", []) and not any(x["kind"] == "reached-earlier" for x in extra):
        extra.append({"kind": "reached-earlier"})
    return {"model": model, "perturbations": perts, "extra": extra}

def directed_cases(tier):
    return [{"reference": True, "perturbations": [{"hashseed": 7, "perm": 12345, "loc": "z", "touch": True, "reverse_creation": True}],
             "root": r} for r in REFROOTS]

# ---------------------------------------------------------------------------

def _copy_project(files, dest, pert, rng_seed):
    """Write the project at dest in a perturbed creation order / timestamps."""
    items = sorted(files.items(), reverse=bool(pert and pert.get("reverse_creation")))
    for p, c in items:
        common.write_file(os.path.join(dest, p), c)
    if pert and pert.get("touch"):
        t = 1_400_000_000 + (pert["hashseed"] * 7919) % 100000
        for p, _ in items:
            os.utime(os.path.join(dest, p), (t, t))
            t += 13

def _evaluate(dest, hashseed, perm, sandbox):
    env = dict(os.environ)
    env["PYTHONHASHSEED"] = str(hashseed)
    env["PYTHONPATH"] = common.VERIF_DIR
    env["VERIF_REPO"] = common.REPO
    p = subprocess.run([sys.executable, "-m", "verifsim.idsdump", "ids", str(perm), "1" if sandbox else "0"],
                       cwd=dest, env=env, stdin=subprocess.DEVNULL, stdout=subprocess.PIPE, stderr=subprocess.PIPE, timeout=120)
    if p.returncode != 0:
        return None, p.stderr.decode(errors="replace")[-600:]
    return json.loads(p.stdout.decode()), None

def _diff(a, b):
    for k in sorted(set(a) | set(b)):
        if a.get(k) != b.get(k):
            return "%s: %s != %s" % (k, a.get(k), b.get(k))
    return None

def _run_reference(case, top, stats, log):
    src = os.path.join(common.REPO, "test", "black-box", "stable-variant-ids")
    root = case["root"]
    golden = common.read_file(os.path.join(src, "specs", root + ".txt")).decode()
    for i, pert in enumerate([None] + case["perturbations"]):
        dest = os.path.join(top, "ref%d" % i, (pert or {}).get("loc", "plain"), "proj")
        os.makedirs(os.path.dirname(dest))
        shutil.copytree(src, dest, ignore=shutil.ignore_patterns("output", ".bob-*", "specs"))
        if pert and pert.get("touch"):
            for r, ds, fs in os.walk(dest):
                for f in fs:
                    os.utime(os.path.join(r, f), (1_300_000_000 + pert["hashseed"], 1_300_000_000 + pert["hashseed"]))
        env = dict(os.environ)
        env["PYTHONHASHSEED"] = str(pert["hashseed"] if pert else 0)
        env["PYTHONPATH"] = common.VERIF_DIR
        env["VERIF_REPO"] = common.REPO
        out = os.path.join(dest, "out.txt")
        p = subprocess.run([sys.executable, "-m", "verifsim.idsdump", "cli", str(pert["perm"] if pert else 0),
                            "project", "-n", "--sandbox", "dumper", "root-" + root, out],
                           cwd=dest, env=env, stdin=subprocess.DEVNULL, stdout=subprocess.PIPE, stderr=subprocess.PIPE, timeout=180)
        stats.inc("reference_evaluations")
        if p.returncode != 0 or not os.path.exists(out):
            return {"kind": "reference-project-fails", "detail": "root-%s pert %s: rc=%d %s" % (root, pert, p.returncode, p.stderr.decode(errors="replace")[-500:])}
        got = common.read_file(out).decode()
        log.append((root, i, common.digest_of(got)))
        if [l.rstrip() for l in got.splitlines()] != [l.rstrip() for l in golden.splitlines()]:
            gl, ol = golden.splitlines(), got.splitlines()
            first = next((j for j in range(min(len(gl), len(ol))) if gl[j].rstrip() != ol[j].rstrip()), min(len(gl), len(ol)))
            return {"kind": "golden-ids-changed",
                    "detail": "root-%s under %s: line %d: recorded %r, computed %r" % (
                        root, pert or "no perturbation", first + 1, gl[first] if first < len(gl) else None, ol[first] if first < len(ol) else None)}
        shutil.rmtree(os.path.join(top, "ref%d" % i))
    return None

def run_case(case):
    top = common.scratch_dir("c03-%d" % os.getpid())
    stats = common.Counter()
    log = []
    viol = None
    try:
        if case.get("reference"):
            viol = _run_reference(case, top, stats, log)
            return {"violation": viol, "digest": common.digest_of(log), "stats": dict(stats), "nontrivial": len(case["perturbations"]) > 0,
                    "sample": {"reference": case["root"], "perturbations": case["perturbations"]}}
        model = case["model"]
        files = projgen.files_of(model)
        base_dir = os.path.join(top, "base", "proj")
        _copy_project(files, base_dir, None, 0)
        base, err = _evaluate(base_dir, 0, 0, False)
        if base is None:
            raise common.HarnessError("base evaluation failed: " + err)
        stats.inc("evaluations")
        log.append(common.digest_of(base))
        for i, pert in enumerate(case["perturbations"]):
            d = os.path.join(top, "p%d" % i, pert["loc"], "proj")
            _copy_project(files, d, pert, i)
            got, err = _evaluate(d, pert["hashseed"], pert["perm"], False)
            stats.inc("evaluations")
            stats.inc("perturbed_evaluations")
            if got is None:
                viol = {"kind": "evaluation-fails-under-perturbation", "detail": "%s: %s" % (pert, err)}
                break
            df = _diff(base, got)
            if df:
                viol = {"kind": "ids-depend-on-environment",
                        "detail": "hash seed %d, listing permutation %d, location %r, touch %s: %s" % (
                            pert["hashseed"], pert["perm"], pert["loc"], pert["touch"], df)}
                break
            common.rmtree(os.path.join(top, "p%d" % i))
        for j, ex in enumerate(case.get("extra", [])):
            if viol:
                break
            k = ex["kind"]
            d = os.path.join(top, "e%d" % j, "proj")
            if k == "sandbox":
                _copy_project(files, d, None, 0)
                got, err = _evaluate(d, 11, 0, True)
                stats.inc("sandbox_flag_evaluations")
                cmp_base, what = base, "sandbox enabled in generatePackages"
            elif k == "neutral":
                m2 = projgen.apply_edit(model, ex["edit"], [model])
                _copy_project(projgen.files_of(m2), d, None, 0)
                got, err = _evaluate(d, 12, 0, False)
                stats.inc("neutral_edit_" + ex["edit"]["kind"])
                cmp_base, what = base, "id-neutral edit %s" % ex["edit"]
            elif k in ("more-reaches", "reached-earlier"):
                import copy
                m2 = copy.deepcopy(model)
                m2["recipes"]["extra"] = projgen._leaf(__import__("random").Random(j))
                if k == "more-reaches":
                    # a second root-level consumer that reaches every package again
                    m2["recipes"]["extra"]["depends"] = [dict(x) for x in m2["recipes"]["root"]["depends"]]
                    m2["recipes"]["root"]["depends"].append({"name": "extra", "use": ["result", "deps"]})
                else:
                    # ... or a first one that reaches every recipe directly, deepest first, before any
                    # other path does (without the environment, tools and conditions of those paths)
                    m2["recipes"]["extra"]["depends"] = [{"name": n, "use": ["result", "deps"]}
                                                         for n in reversed(m2["order"]) if n not in ("root", "sbx", "pw")]
                    if "toolremap" in model.get("features", []):
                        # the wrapper that root reaches second is reached first now (the recipes below it
                        # cannot be reached without a provider of the remapped tool)
                        later = [x["name"] for x in m2["recipes"]["root"]["depends"] if x["name"] in ("wa", "wb")][-1:]
                        m2["recipes"]["extra"]["depends"] = [{"name": n, "use": ["result", "deps"]} for n in later]
                    m2["recipes"]["root"]["depends"].insert(0, {"name": "extra", "use": ["result", "deps"]})
                m2["order"] = m2["order"] + ["extra"]
                _copy_project(projgen.files_of(m2), d, None, 0)
                got, err = _evaluate(d, 13, 0, False)
                stats.inc("more_reaches_evaluations" if k == "more-reaches" else "reached_earlier_evaluations")
                if got is not None:
                    # ids of everything that existed before (except root itself, which got a dependency)
                    got = {p: v for p, v in got.items() if p in base and p != "root"}
                cmp_base, what = {p: v for p, v in base.items() if p != "root"}, "packages reached more often"
            else:
                if "pw" not in model["recipes"]:
                    continue
                import copy
                m2 = copy.deepcopy(model)
                m2["recipes"]["pw"]["salt"]["package"] = "deadbeef"
                _copy_project(projgen.files_of(m2), d, None, 0)
                got, err = _evaluate(d, 14, 0, False)
                stats.inc("weaktool_variant_evaluations")
                if got is not None:
                    # Build-Ids (second element) of everything but the tool itself must not change
                    got = {p: {l: x[1] for l, x in v.items()} for p, v in got.items() if p.split("/")[-1] != "pw"}
                cmp_base = {p: {l: x[1] for l, x in v.items()} for p, v in base.items() if p.split("/")[-1] != "pw"}
                what = "variant of a weakly used tool changed (Build-Ids)"
            if got is None:
                stats.inc("extra_evaluation_invalid")
                continue
            df = _diff(cmp_base, got)
            if df:
                viol = {"kind": "ids-changed-by-irrelevant-input", "detail": "%s: %s" % (what, df)}
                break
    finally:
        common.rmtree(top)
    np = len(case.get("perturbations", []))
    return {"violation": viol, "digest": common.digest_of(log), "stats": dict(stats), "nontrivial": np >= 2,
            "sim_time": float(stats.get("evaluations", 0)),
            "sample": {"features": case["model"].get("features"), "perturbations": case["perturbations"], "extra": case.get("extra"),
                       "packages": len(base) if not viol or True else 0}}
