"""Engine B: several real processes stepping through one real file system,
one file-system operation at a time, under a seeded scheduler.

Actors are forked children executing real Bob functions.  Module globals of the
Bob module under test (``os``, ``open``, ``NamedTemporaryFile``, ``shutil``,
``lockFile`` ...) are rebound *inside the child* to proxies that turn every
call into a **sim point**: the child reports (actor, n, op, args) to the
parent and blocks until the parent answers ``go``, ``fail <errno>`` or kills it
(real SIGKILL: no finally/__exit__ runs, the kernel drops its flocks).  Exactly
one process runs at any real moment, so the list of scheduler decisions is an
exact replay.
"""

import errno as _errno
import fcntl
import os
import pickle
import random
import select
import signal
import struct
import sys
import tempfile
import time
import traceback

from . import common

class SimHarnessError(Exception):
    pass

# ---------------------------------------------------------------------------
# child side

class _ChildSim:
    def __init__(self, name, rfd, wfd, root):
        self.name = name
        self.rfd = rfd
        self.wfd = wfd
        self.root = root
        self.n = 0
        self.now = 0        # global step number of the last verdict = simulated time
        self.enabled = True

    def _send(self, obj):
        data = pickle.dumps(obj)
        data = struct.pack("<I", len(data)) + data
        off = 0
        while off < len(data):
            off += os.write(self.wfd, data[off:])

    def _recv(self):
        b = os.read(self.rfd, 16)
        if not b:
            os._exit(99)
        return b

    def rel(self, a):
        if isinstance(a, bytes):
            try:
                a = a.decode()
            except UnicodeDecodeError:
                return "<bytes>"
        if isinstance(a, str):
            if self.root and a.startswith(self.root):
                return "$R" + a[len(self.root):]
            return a if len(a) < 120 else a[:117] + "..."
        if isinstance(a, (int, float, bool)) or a is None:
            return a
        if isinstance(a, (bytes, bytearray, memoryview)):
            return "<%d bytes>" % len(a)
        return "<%s>" % type(a).__name__

    def point(self, op, args=(), blockable=False):
        """Report a sim point and wait for the verdict.  Returns None for 'go',
        raises OSError for an injected failure."""
        if not self.enabled:
            return None
        self.n += 1
        self._send(("pt", self.n, op, [self.rel(a) for a in args][:3]))
        ans = self._recv()
        if ans[:1] == b"g":
            self.now = int(ans[1:] or b"0")
            return None
        if ans[:1] == b"f":
            code, _, now = ans[1:].decode().partition(",")
            self.now = int(now or 0)
            raise OSError(int(code), os.strerror(int(code)) + " [injected]")
        raise SimHarnessError("bad verdict %r" % ans)

    def blocked(self, op):
        self._send(("blk", self.n, op, []))
        ans = self._recv()
        if ans[:1] != b"g":
            raise SimHarnessError("bad verdict %r" % ans)
        self.now = int(ans[1:] or b"0")

    def stamp(self, path):
        """Set mtime of path from the simulated clock (1 step = 1 s)."""
        t = (1_700_000_000 + self.now) * 1_000_000_000
        try:
            os.utime(path, ns=(t, t))
        except OSError:
            pass

    def done(self, status, value):
        self._send(("done", self.n, status, value))

STAMP_WRITES = False    # set mtime of written files from the simulated clock at close
WRITE_STRIDE = 1    # every n-th consecutive write() of a file is a sim point

SIM = None  # the _ChildSim of the current actor process (None in the parent)

def point(op, *args):
    if SIM is not None:
        return SIM.point(op, args)

def wrap(op, fn):
    def w(*a, **kw):
        if SIM is not None:
            SIM.point(op, a)
        return fn(*a, **kw)
    w.__name__ = getattr(fn, "__name__", op)
    return w

class ModProxy:
    """Proxy for a module (or any namespace): attributes listed in `points`
    become sim points, `sub` maps attribute names to nested proxies, everything
    else falls through."""
    def __init__(self, real, name, points=(), sub=None, override=None):
        self.__dict__["_real"] = real
        self.__dict__["_name"] = name
        self.__dict__["_points"] = frozenset(points)
        self.__dict__["_sub"] = sub or {}
        self.__dict__["_override"] = override or {}
    def __getattr__(self, attr):
        d = self.__dict__
        if attr in d["_override"]:
            return d["_override"][attr]
        if attr in d["_sub"]:
            return d["_sub"][attr]
        val = getattr(d["_real"], attr)
        if attr in d["_points"]:
            return wrap(d["_name"] + "." + attr, val)
        return val

class SimFile:
    """File object proxy: write/read/close/truncate/flush are sim points.  An
    injected write failure writes a prefix first (short/torn write) and then
    raises."""
    def __init__(self, real, label, stamp_path=None):
        self._f = real
        self._label = label
        self._wcount = 0
        self._stamp = stamp_path    # files opened for writing get their mtime from the simulated clock
        self._truncated = "w" in getattr(real, "mode", "") or "x" in getattr(real, "mode", "")
    def __getattr__(self, attr):
        return getattr(self._f, attr)
    def __enter__(self):
        self._f.__enter__()
        return self
    def __exit__(self, *a):
        if SIM is not None:
            SIM.point("file.close", (self._label,))
        r = self._f.__exit__(*a)
        self._do_stamp()
        return r
    def _do_stamp(self):
        # like a real file system: the mtime only moves if the file was written
        if self._stamp and SIM is not None and STAMP_WRITES and (self._wcount > 0 or self._truncated):
            SIM.stamp(self._stamp)
    def __iter__(self):
        return iter(self._f)
    def write(self, data):
        self._wcount += 1
        if SIM is not None and (self._wcount - 1) % WRITE_STRIDE == 0:
            try:
                SIM.point("file.write", (self._label, len(data)))
            except OSError:
                # torn write: part of the data reaches the file, then the error
                try:
                    self._f.write(data[: len(data) // 2])
                    self._f.flush()
                except Exception:
                    pass
                raise
        return self._f.write(data)
    def read(self, *a):
        if SIM is not None:
            SIM.point("file.read", (self._label,) + a)
        return self._f.read(*a)
    def close(self):
        was_open = not self._f.closed
        if SIM is not None and was_open:
            SIM.point("file.close", (self._label,))
        r = self._f.close()
        if was_open:
            self._do_stamp()
        return r
    def truncate(self, *a):
        self._truncated = True
        if SIM is not None:
            SIM.point("file.truncate", (self._label,))
        return self._f.truncate(*a)
    def flush(self):
        return self._f.flush()

def make_open(real_open=open, label=None):
    def sim_open(name, mode="r", *a, **kw):
        if SIM is not None:
            SIM.point("open", (name, mode))
        f = real_open(name, mode, *a, **kw)
        wr = any(c in mode for c in "wax+")
        return SimFile(f, (SIM.rel(name) if SIM is not None else str(name)), name if wr else None)
    return sim_open

def make_named_temporary_file(real=tempfile.NamedTemporaryFile):
    def sim_ntf(*a, **kw):
        if SIM is not None:
            SIM.point("NamedTemporaryFile", (kw.get("dir"),))
        f = real(*a, **kw)
        return SimFile(f, "tmpfile")
    return sim_ntf

def make_flock():
    """Replacements for bob.share.lockFile/unlockFile: non-blocking real flock;
    EWOULDBLOCK => actor reported blocked and retried when scheduled again."""
    def lockFile(fd, exclusive):
        if SIM is not None:
            SIM.point("flock", ("EX" if exclusive else "SH", getattr(fd, "_label", "?")))
        while True:
            try:
                fcntl.flock(fd.fileno(), (fcntl.LOCK_EX if exclusive else fcntl.LOCK_SH) | fcntl.LOCK_NB)
                return
            except OSError as e:
                if e.errno not in (_errno.EWOULDBLOCK, _errno.EAGAIN):
                    raise
                if SIM is None:
                    raise
                SIM.blocked("flock")
    def unlockFile(fd):
        if SIM is not None:
            SIM.point("funlock", (getattr(fd, "_label", "?"),))
        fcntl.flock(fd.fileno(), fcntl.LOCK_UN)
    return lockFile, unlockFile

def seed_tempnames(seed):
    """tempfile names come from a process-global PRNG seeded from the pid;
    pin it so that temp names (and hence logs, listings) replay exactly."""
    ns = tempfile._RandomNameSequence()
    ns._rng = random.Random(seed)
    ns._rng_pid = os.getpid()
    tempfile._name_sequence = ns

# ---------------------------------------------------------------------------
# parent side

class Actor:
    def __init__(self, idx, name, pid, rfd, wfd):
        self.idx = idx
        self.name = name
        self.pid = pid
        self.rfd = rfd      # parent reads child's reports
        self.wfd = wfd      # parent writes verdicts
        self.state = "start"    # start | ready | blocked | done | killed
        self.cur = None     # (n, op, args) of the pending sim point
        self.npoints = 0
        self.result = None  # ('ok', value) | ('exc', text)
        self.history = []   # ops granted (for oracles)
        self.buf = b""

class ProcSim:
    def __init__(self, root, decisions=None, sched_seed=0, stickiness=0.0, faults=None,
                 step_timeout=30.0, max_steps=5000):
        self.root = root
        self.actors = []
        self.decisions_in = list(decisions) if decisions is not None else None
        self.decisions = []
        self.rng = random.Random(sched_seed)
        self.stickiness = stickiness
        self.faults = {}
        for f in (faults or []):
            self.faults[(f["actor"], f["at"])] = f
        self.fired = []
        self.log = []
        self.step = 0
        self.step_timeout = step_timeout
        self.max_steps = max_steps
        self.last = None
        self.deadlock = False

    # -- actor management
    def spawn(self, name, fn, *args):
        idx = len(self.actors)
        c2p_r, c2p_w = os.pipe()
        p2c_r, p2c_w = os.pipe()
        sys.stdout.flush(); sys.stderr.flush()
        pid = os.fork()
        if pid == 0:
            try:
                common.die_with_parent()
                os.close(c2p_r); os.close(p2c_w)
                for a in self.actors:
                    for fd in (a.rfd, a.wfd):
                        try: os.close(fd)
                        except OSError: pass
                global SIM
                SIM = _ChildSim(name, p2c_r, c2p_w, self.root)
                seed_tempnames(common.seed_int("tmp", name, idx))
                SIM.point("start", ())
                try:
                    val = ("ok", fn(*args))
                except BaseException as e:  # noqa
                    val = ("exc", "%s: %s" % (type(e).__name__, e),
                           "".join(traceback.format_exception(type(e), e, e.__traceback__))[-3000:])
                SIM.done(val[0], val[1:] if val[0] == "exc" else val[1])
            finally:
                os._exit(0)
        os.close(c2p_w); os.close(p2c_r)
        a = Actor(idx, name, pid, c2p_r, p2c_w)
        self.actors.append(a)
        self._await(a)      # parks at its 'start' point
        return a

    def _read_msg(self, a):
        deadline = time.monotonic() + self.step_timeout
        while True:
            if len(a.buf) >= 4:
                (ln,) = struct.unpack("<I", a.buf[:4])
                if len(a.buf) >= 4 + ln:
                    msg = pickle.loads(a.buf[4:4 + ln])
                    a.buf = a.buf[4 + ln:]
                    return msg
            left = deadline - time.monotonic()
            if left <= 0:
                raise SimHarnessError("actor %s did not reach next sim point within %.0fs (cur=%r)" % (
                    a.name, self.step_timeout, a.cur))
            r, _, _ = select.select([a.rfd], [], [], left)
            if r:
                chunk = os.read(a.rfd, 65536)
                if not chunk:
                    return None
                a.buf += chunk

    def _await(self, a):
        msg = self._read_msg(a)
        if msg is None:
            # died without 'done' (only legitimate after our SIGKILL)
            a.state = "killed"
            self._reap(a)
            return
        kind = msg[0]
        if kind == "pt":
            a.state = "ready"
            a.cur = (msg[1], msg[2], msg[3])
            a.npoints = msg[1]
        elif kind == "blk":
            a.state = "blocked"
        elif kind == "done":
            a.state = "done"
            a.result = (msg[2], msg[3])
            self._reap(a)

    def _reap(self, a):
        for fd in (a.rfd, a.wfd):
            try: os.close(fd)
            except OSError: pass
        try:
            os.waitpid(a.pid, 0)
        except ChildProcessError:
            pass

    def kill(self, a):
        try:
            os.kill(a.pid, signal.SIGKILL)
        except OSError:
            pass
        a.state = "killed"
        self._reap(a)

    # -- scheduling
    def runnable(self):
        return [a for a in self.actors if a.state in ("ready", "blocked")]

    def _choose(self, cands):
        i = len(self.decisions)
        if self.decisions_in is not None and i < len(self.decisions_in):
            want = self.decisions_in[i]
            for a in cands:
                if a.idx == want:
                    self.decisions.append(a.idx)
                    return a
            a = cands[want % len(cands)]
        else:
            if self.last is not None and self.last in cands and self.rng.random() < self.stickiness:
                a = self.last
            else:
                a = cands[self.rng.randrange(len(cands))]
        self.decisions.append(a.idx)
        return a

    def step_once(self):
        """Let one actor perform its pending operation.  Returns the actor and
        the (n, op, args) it performed, or None when nothing can run."""
        cands = self.runnable()
        if not cands:
            return None
        ready = [a for a in cands if a.state == "ready"]
        if not ready:
            # everybody is waiting for a lock: retry each once; if none gets
            # it this is a deadlock
            progressed = False
            for a in cands:
                os.write(a.wfd, b"g%d" % self.step)
                self._await(a)
                if a.state != "blocked":
                    progressed = True
                    break
            if not progressed:
                self.deadlock = True
                return None
            return self.step_once() if self.runnable() else None
        a = self._choose(cands)
        self.step += 1
        if a.state == "blocked":
            os.write(a.wfd, b"g%d" % self.step)
            self._await(a)
            self.log.append((self.step, a.name, "retry-lock", a.state))
            self.last = a
            return (a, (a.npoints, "retry-lock", []))
        cur = a.cur
        f = self.faults.get((a.name, cur[0]))
        if f is not None and f["kind"] == "kill":
            self.fired.append(("kill", a.name, cur[0], cur[1]))
            self.log.append((self.step, a.name, "KILL@" + cur[1], cur[2]))
            self.kill(a)
            self.last = None
            return (a, (cur[0], "KILL", cur[2]))
        if f is not None and f["kind"] == "errno" and _fault_applicable(cur[1]):
            self.fired.append(("errno-%d" % f["errno"], a.name, cur[0], cur[1]))
            self.log.append((self.step, a.name, "FAIL%d@%s" % (f["errno"], cur[1]), cur[2]))
            os.write(a.wfd, b"f%d,%d" % (f["errno"], self.step))
        else:
            self.log.append((self.step, a.name, cur[1], cur[2]))
            os.write(a.wfd, b"g%d" % self.step)
        a.history.append(cur)
        self._await(a)
        self.last = a
        return (a, cur)

    def run(self, on_step=None):
        while self.step < self.max_steps:
            r = self.step_once()
            if r is None:
                break
            if on_step is not None:
                if on_step(*r) is False:
                    break
        return self

    def shutdown(self):
        for a in self.actors:
            if a.state not in ("done", "killed"):
                self.kill(a)

def _fault_applicable(op):
    """errno faults are only injected at operations where the kernel can
    really fail that way."""
    return op != "start" and not op.startswith("flock") and not op.startswith("funlock")
