"""Query children: interrogate a project through Bob's Python API in a forked
child (pristine module state), like `bob query-path` does."""

import os
import sys

from . import common

def _dump(cwd, develop, defines, sandbox, root_query, want):
    os.chdir(cwd)
    from bob.input import RecipeSet
    from bob.builder import LocalBuilder
    from bob.cmds.build.state import DevelopDirOracle
    from bob.state import finalize
    from bob.tty import setVerbosity
    setVerbosity(-2)
    try:
        recipes = RecipeSet()
        recipes.defineHook('releaseNameFormatter', LocalBuilder.releaseNameFormatter)
        recipes.defineHook('developNameFormatter', LocalBuilder.developNameFormatter)
        recipes.defineHook('developNamePersister', None)
        recipes.parse(defines or {})
        if develop:
            nameFormatter = recipes.getHook('developNameFormatter')
            persister = DevelopDirOracle(nameFormatter, recipes.getHook('developNamePersister'))
            nameFormatter = persister.getFormatter()
        else:
            nameFormatter = LocalBuilder.releaseNameInterrogator
        nameFormatter = LocalBuilder.makeRunnable(nameFormatter)
        packages = recipes.generatePackages(nameFormatter, sandbox)
        if develop:
            persister.prime(packages)
        out = {}
        for package in packages.queryPackagePath(root_query):
            ent = {"path": "/".join(package.getStack()), "recipe": package.getRecipe().getName(),
                   "name": package.getName(), "steps": {}}
            for label, step in (("src", package.getCheckoutStep()), ("build", package.getBuildStep()),
                                ("dist", package.getPackageStep())):
                s = {"valid": step.isValid()}
                if step.isValid():
                    s["ws"] = step.getWorkspacePath()
                    s["vid"] = step.getVariantId().hex()
                    if "detail" in want:
                        s["deterministic"] = step.isDeterministic() if step.isCheckoutStep() else None
                        s["shared"] = step.isShared() if step.isPackageStep() else None
                        s["relocatable"] = step.isRelocatable()
                        s["args"] = [a.getWorkspacePath() if a.isValid() else None for a in step.getArguments()]
                        s["tools"] = {n: t.getStep().getWorkspacePath() for n, t in step.getTools().items()}
                        s["fingerprinted"] = step._isFingerprinted()
                        s["env"] = dict(step.getEnv())
                ent["steps"][label] = s
            if "detail" in want:
                ent["metaEnv"] = dict(package.getMetaEnv())
            out[ent["path"]] = ent
        return out
    finally:
        finalize()

def query(cwd, develop=True, defines=None, sandbox=False, root_query="//*", want=(), timeout=60.0):
    """Returns {package path: {...}} for all packages matched by root_query
    (default: everything).  Raises HarnessError if the project does not parse."""
    r = common.run_forked(_dump, cwd, develop, defines, sandbox, root_query, tuple(want), timeout=timeout)
    if r.status != "ok":
        raise QueryError("query failed (%s): %s" % (r.status, (r.value or "")[-1500:]))
    return r.value

class QueryError(Exception):
    pass
