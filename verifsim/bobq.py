"""Query children: interrogate a project through Bob's Python API in a forked
child (pristine module state), like `bob query-path` does."""

import os
import sys

from . import common

def _dump(cwd, develop, defines, sandbox, root_query, want):
    os.chdir(cwd)
    from bob.input import RecipeSet
    from bob.builder import LocalBuilder
    from bob.cmds.build.state import DevelopDirOracle
    from bob.state import finalize
    from bob.tty import setVerbosity
    setVerbosity(-2)
    try:
        recipes = RecipeSet()
        recipes.defineHook('releaseNameFormatter', LocalBuilder.releaseNameFormatter)
        recipes.defineHook('developNameFormatter', LocalBuilder.developNameFormatter)
        recipes.defineHook('developNamePersister', None)
        recipes.parse(defines or {})
        if develop:
            nameFormatter = recipes.getHook('developNameFormatter')
            persister = DevelopDirOracle(nameFormatter, recipes.getHook('developNamePersister'))
            nameFormatter = persister.getFormatter()
        else:
            nameFormatter = LocalBuilder.releaseNameInterrogator
        nameFormatter = LocalBuilder.makeRunnable(nameFormatter)
        packages = recipes.generatePackages(nameFormatter, sandbox)
        if develop:
            persister.prime(packages)
        out = {}
        bid_memo = {}
        async def expected_bid_async(step):
            """Build-Id the builder must have used, recomputed from the source
            result hashes recorded in the checkout trails (None if it cannot be
            derived: fingerprinted / non-relocatable / missing trail)."""
            import gzip, json
            from bob.cmds.build.build import ExecutableStep, LazyIR
            from bob.utils import getPlatformTag
            key = step.getWorkspacePath()
            if key in bid_memo:
                return bid_memo[key]
            res = None
            try:
                if step.isCheckoutStep():
                    ap = os.path.join(os.path.dirname(key), "audit.json.gz")
                    with gzip.open(ap, "rb") as f:
                        res = bytes.fromhex(json.load(f)["artifact"]["result-hash"])
                elif step._isFingerprinted() or (step.isPackageStep() and not step.isRelocatable()):
                    res = None
                else:
                    ir = step if not hasattr(step, "_coreStep") else ExecutableStep.fromStep(step, LazyIR)
                    async def calc(deps):
                        r = []
                        for d in deps:
                            b = await expected_bid_async(d)
                            if b is None:
                                raise KeyError("underivable")
                            r.append(b)
                        return r
                    res = await ir.getDigestCoro(calc, fingerprint=b"", platform=getPlatformTag(), relaxTools=True)
            except (KeyError, OSError, ValueError):
                res = None
            bid_memo[key] = res
            return res
        def expected_bid(step):
            import asyncio
            loop = asyncio.new_event_loop()
            try:
                return loop.run_until_complete(expected_bid_async(step))
            finally:
                loop.close()
        for package in packages.queryPackagePath(root_query):
            ent = {"path": "/".join(package.getStack()), "recipe": package.getRecipe().getName(),
                   "name": package.getName(), "steps": {}}
            for label, step in (("src", package.getCheckoutStep()), ("build", package.getBuildStep()),
                                ("dist", package.getPackageStep())):
                s = {"valid": step.isValid()}
                if step.isValid():
                    s["ws"] = step.getWorkspacePath()
                    s["vid"] = step.getVariantId().hex()
                    if "detail" in want:
                        s["deterministic"] = step.isDeterministic() if step.isCheckoutStep() else None
                        s["shared"] = step.isShared() if step.isPackageStep() else None
                        s["relocatable"] = step.isRelocatable()
                        s["args"] = [a.getWorkspacePath() if a.isValid() else None for a in step.getArguments()]
                        s["tools"] = {n: t.getStep().getWorkspacePath() for n, t in step.getTools().items()}
                        s["fingerprinted"] = step._isFingerprinted()
                        s["env"] = dict(step.getEnv())
                    if "bid" in want:
                        from bob.state import BobState
                        b = expected_bid(step)
                        s["bid"] = b.hex() if b is not None else None
                        s["storage"] = BobState().getStoragePath(step.getWorkspacePath())
                        s["label"] = step.getLabel()
                        if step.isPackageStep():
                            ih = BobState().getInputHashes(step.getWorkspacePath())
                            s["prov"] = ("built" if isinstance(ih, list) else "downloaded" if isinstance(ih, bytes)
                                         else "shared" if isinstance(ih, tuple) else None)
                ent["steps"][label] = s
            if "detail" in want:
                ent["metaEnv"] = dict(package.getMetaEnv())
            out[ent["path"]] = ent
        return out
    finally:
        finalize()

def query(cwd, develop=True, defines=None, sandbox=False, root_query="//*", want=(), timeout=60.0):
    """Returns {package path: {...}} for all packages matched by root_query
    (default: everything).  Raises HarnessError if the project does not parse."""
    r = common.run_forked(_dump, cwd, develop, defines, sandbox, root_query, tuple(want), timeout=timeout)
    if r.status != "ok":
        raise QueryError("query failed (%s): %s" % (r.status, (r.value or "")[-1500:]))
    return r.value

class QueryError(Exception):
    pass
