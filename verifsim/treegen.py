"""File-tree worlds: generation of explicit operation lists against a light
model, and an interpreter that applies them to the real file system under the
simulated stat clock (every content/metadata modification gets a fresh mtime
that no inode carried before)."""

import os
import stat

# names chosen to sort adjacent to directory boundaries ('/' is 0x2f) and to
# exercise quoting / unicode
NAMES = ["a", "a.b", "a0", "a!", "a b", "ab", "a-", "A", "b", "c", "d",
         "été", "z$x", "-n", "x'y", "#h", "~", "☃", "a\tb"]
SCM_NAMES = [".git", ".svn", "BaseDirList.txt"]
MODES_F = [0o644, 0o600, 0o755, 0o444, 0o4755, 0o664]
MODES_D = [0o755, 0o700, 0o775, 0o1777]

class SimClock:
    """Strictly fresh mtimes; may jump backwards/forwards on request."""
    def __init__(self, start=1_600_000_000_000_000_000):
        self.now = start
        self.used = set()
    def tick(self):
        self.now += 1_000_003
        while self.now in self.used:
            self.now += 7
        self.used.add(self.now)
        return self.now
    def jump(self, delta_s):
        self.now += int(delta_s * 1_000_000_000)

def content_bytes(tag, size):
    """Deterministic content: unique per tag, exactly `size` bytes."""
    import hashlib
    out = bytearray()
    i = 0
    seed = str(tag).encode()
    while len(out) < size:
        out += hashlib.sha256(seed + b"/%d" % i).digest()
        i += 1
    return bytes(out[:size])

class TreeModel:
    """Generator-side model: path -> ('f'|'d'|'l'|'p')."""
    def __init__(self):
        self.e = {}
    def dirs(self):
        return [""] + sorted(p for p, k in self.e.items() if k == "d")
    def paths(self, kinds="fdlp"):
        return sorted(p for p, k in self.e.items() if k in kinds)
    def children(self, p):
        pre = p + "/"
        return [q for q in self.e if q.startswith(pre)]
    def remove(self, p):
        for q in self.children(p):
            del self.e[q]
        self.e.pop(p, None)
    def rename(self, a, b):
        self.remove(b)
        moved = {a: self.e[a]}
        for q in self.children(a):
            moved[q] = self.e[q]
        for q in moved:
            del self.e[q]
        for q, k in moved.items():
            self.e[b + q[len(a):]] = k

def gen_ops(rng, model, n, allow_scm=True, max_entries=40, hash_prob=0.5,
            specials=True):
    """Generate n operations valid against `model` (mutated in place)."""
    ops = []
    def fresh_tag():
        return "%x" % rng.getrandbits(48)
    def newpath():
        d = rng.choice(model.dirs())
        pool = NAMES + (SCM_NAMES if allow_scm and rng.random() < 0.3 else [])
        nm = rng.choice(pool)
        return (d + "/" + nm) if d else nm
    def inside_self(a, b):
        return b == a or b.startswith(a + "/")
    for _ in range(n):
        r = rng.random()
        files = model.paths("f")
        every = model.paths()
        if len(model.e) >= max_entries and r < 0.5:
            r = 0.75  # force removal pressure
        if r < 0.22 or not every:
            p = newpath()
            if p in model.e and model.e[p] == "d":
                continue
            model.remove(p)
            model.e[p] = "f"
            ops.append(["mkfile", p, fresh_tag(), rng.choice([0, 1, 5, 64, 64, 300, 5000]), rng.choice(MODES_F)])
        elif r < 0.30:
            p = newpath()
            if p in model.e:
                continue
            model.e[p] = "d"
            ops.append(["mkdir", p, rng.choice(MODES_D)])
        elif r < 0.36:
            p = newpath()
            if p in model.e and model.e[p] == "d":
                continue
            model.remove(p)
            model.e[p] = "l"
            tgt = rng.choice(["a", "../a", "/nonexistent", "a.b", ".", "x" * 70] + every[:3])
            ops.append(["symlink", p, tgt])
        elif r < 0.46 and files:
            p = rng.choice(files)
            ops.append(["write", p, fresh_tag(), rng.choice([0, 3, 64, 65, 700])])
        elif r < 0.56 and files:
            p = rng.choice(files)
            # same size; in two of four variants the old mtime is restored as well (cp -p, touch -r,
            # atomic replace by an equally sized file): only ctime / inode tell that the file changed
            ops.append([rng.choice(["rewrite_same_size", "rewrite_same_size", "rewrite_keep_mtime", "swap_keep_mtime"]),
                        p, fresh_tag()])
        elif r < 0.62 and every:
            p = rng.choice(every)
            if model.e[p] == "l":
                if rng.random() < 0.5:
                    ops.append(["relink_keep_mtime", p])
                    if rng.random() < hash_prob:
                        ops.append(["hash"])
                continue
            ops.append(["chmod", p, rng.choice(MODES_D if model.e[p] == "d" else MODES_F)])
        elif r < 0.74 and every:
            p = rng.choice(every)
            model.remove(p)
            ops.append(["rm", p])
        elif r < 0.84 and every:
            a = rng.choice(every)
            b = newpath()
            if inside_self(a, b) or inside_self(b, a):
                continue
            if b in model.e and model.e[b] == "d" and model.e[a] != "d":
                continue
            if b in model.e and model.e[b] != "d" and model.e[a] == "d":
                continue
            model.rename(a, b)
            ops.append(["rename", a, b])
        elif r < 0.92 and every:
            p = rng.choice(every)
            kind = rng.choice([k for k in "fdl" if k != model.e[p]])
            model.remove(p)
            model.e[p] = kind
            ops.append(["replace", p, kind, fresh_tag()])
        elif r < 0.95 and files:
            a = rng.choice(files)
            b = newpath()
            if b in model.e:
                continue
            model.e[b] = "f"
            ops.append(["hardlink", a, b])
        elif r < 0.97 and specials:
            p = newpath()
            if p in model.e:
                continue
            model.e[p] = "p"
            ops.append(["mkfifo", p])
        else:
            ops.append(["clockjump", rng.choice([-86400, -3600, -1, 5, 100000])])
        if rng.random() < hash_prob:
            ops.append(["hash"])
    return ops

def _rm(path):
    import shutil
    if os.path.islink(path) or not os.path.isdir(path):
        try:
            os.unlink(path)
        except FileNotFoundError:
            pass
    else:
        # make removable
        for r, ds, fs in os.walk(path):
            os.chmod(r, 0o700)
        shutil.rmtree(path)

def _restore_mtime(p, old):
    """Give p the mtime it had before the modification.  The kernel moves ctime to "now";
    make sure the stat data really differs from `old` (the contract of the property: every
    modification changes the file's stat data) -- within one timer tick it might not."""
    import time
    for _ in range(200):
        os.utime(p, ns=(old.st_atime_ns, old.st_mtime_ns), follow_symlinks=False)
        st = os.lstat(p)
        if (st.st_ctime_ns, st.st_ino, st.st_dev) != (old.st_ctime_ns, old.st_ino, old.st_dev):
            return
        time.sleep(0.002)
    raise RuntimeError("cannot make stat data of %s differ" % p)

def apply_op(root, op, clock):
    """Apply one op below root.  Returns False if the op was not applicable
    (possible after shrinking removed earlier ops)."""
    kind = op[0]
    def P(rel):
        return os.path.join(root, rel)
    def touch(p):
        t = clock.tick()
        os.utime(p, ns=(t, t), follow_symlinks=False)
    def parent_ok(p):
        d = os.path.dirname(p)
        return os.path.isdir(d) and not os.path.islink(d)
    def writable_parent(p):
        d = os.path.dirname(p)
        st = os.stat(d)
        if not (st.st_mode & 0o200):
            os.chmod(d, stat.S_IMODE(st.st_mode) | 0o700)
    try:
        if kind == "mkfile":
            _, rel, tag, size, mode = op
            p = P(rel)
            if not parent_ok(p) or (os.path.isdir(p) and not os.path.islink(p)):
                return False
            _rm(p)
            with open(p, "wb") as f:
                f.write(content_bytes(tag, size))
            os.chmod(p, mode)
            touch(p)
        elif kind == "mkdir":
            _, rel, mode = op
            p = P(rel)
            if not parent_ok(p) or os.path.lexists(p):
                return False
            os.mkdir(p)
            os.chmod(p, mode | 0o700)  # keep traversable/writable for the harness
            touch(p)
        elif kind == "symlink":
            _, rel, tgt = op
            p = P(rel)
            if not parent_ok(p) or (os.path.isdir(p) and not os.path.islink(p)):
                return False
            _rm(p)
            os.symlink(tgt, p)
            touch(p)
        elif kind == "write":
            _, rel, tag, size = op
            p = P(rel)
            if not os.path.isfile(p) or os.path.islink(p):
                return False
            mode = stat.S_IMODE(os.lstat(p).st_mode)
            os.chmod(p, mode | 0o600)
            with open(p, "wb") as f:
                f.write(content_bytes(tag, size))
            os.chmod(p, mode)
            touch(p)
        elif kind == "rewrite_same_size":
            _, rel, tag = op
            p = P(rel)
            if not os.path.isfile(p) or os.path.islink(p):
                return False
            st = os.lstat(p)
            if st.st_size == 0:
                return False
            mode = stat.S_IMODE(st.st_mode)
            os.chmod(p, mode | 0o600)
            with open(p, "r+b") as f:
                f.write(content_bytes(tag, st.st_size))
            os.chmod(p, mode)
            touch(p)
        elif kind in ("rewrite_keep_mtime", "swap_keep_mtime"):
            _, rel, tag = op
            p = P(rel)
            if not os.path.isfile(p) or os.path.islink(p):
                return False
            st = os.lstat(p)
            if st.st_size == 0:
                return False
            new = content_bytes(tag, st.st_size)
            with open(p, "rb") as f:
                if f.read() == new:
                    return False
            mode = stat.S_IMODE(st.st_mode)
            if kind == "rewrite_keep_mtime":
                os.chmod(p, mode | 0o600)
                with open(p, "r+b") as f:
                    f.write(new)
                os.chmod(p, mode)
            else:
                writable_parent(p)
                tmp = p + ".swap~"
                with open(tmp, "wb") as f:
                    f.write(new)
                os.chmod(tmp, mode)
                os.rename(tmp, p)
            _restore_mtime(p, st)
        elif kind == "relink_keep_mtime":
            p = P(op[1])
            if not os.path.islink(p):
                return False
            st = os.lstat(p)
            old = os.readlink(p)
            if not old:
                return False
            tgt = old[:-1] + ("y" if old[-1] != "y" else "z")
            writable_parent(p)
            os.unlink(p)
            os.symlink(tgt, p)
            _restore_mtime(p, st)
        elif kind == "chmod":
            _, rel, mode = op
            p = P(rel)
            if not os.path.lexists(p) or os.path.islink(p):
                return False
            if os.path.isdir(p):
                mode |= 0o700
            os.chmod(p, mode)
            touch(p)
        elif kind == "rm":
            p = P(op[1])
            if not os.path.lexists(p):
                return False
            _rm(p)
        elif kind == "rename":
            a, b = P(op[1]), P(op[2])
            if not os.path.lexists(a) or not parent_ok(b):
                return False
            if os.path.abspath(b).startswith(os.path.abspath(a) + os.sep) or a == b:
                return False
            a_dir = os.path.isdir(a) and not os.path.islink(a)
            if os.path.lexists(b):
                b_dir = os.path.isdir(b) and not os.path.islink(b)
                if a_dir != b_dir:
                    return False
                _rm(b)
            os.rename(a, b)
        elif kind == "replace":
            _, rel, k, tag = op
            p = P(rel)
            if not os.path.lexists(p):
                return False
            _rm(p)
            if k == "f":
                with open(p, "wb") as f:
                    f.write(content_bytes(tag, 33))
            elif k == "d":
                os.mkdir(p)
            else:
                os.symlink("a", p)
            touch(p)
        elif kind == "hardlink":
            a, b = P(op[1]), P(op[2])
            if not os.path.isfile(a) or os.path.islink(a) or os.path.lexists(b) or not parent_ok(b):
                return False
            os.link(a, b)
        elif kind == "mkfifo":
            p = P(op[1])
            if os.path.lexists(p) or not parent_ok(p):
                return False
            os.mkfifo(p)
            touch(p)
        elif kind == "clockjump":
            clock.jump(op[1])
        else:
            return False
        return True
    except (NotADirectoryError, FileNotFoundError, IsADirectoryError, FileExistsError):
        return False
