"""Deterministic simulation with fault injection for BobBuildTool/bob.

See /verif/DESIGN.md.  Everything below /verif/verifsim is harness code; the
system under test is imported from $VERIF_REPO/pym (default /repo/pym) and is
always the current working tree.
"""
