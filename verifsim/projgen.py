"""Random Bob projects, edit operations on them, and materialisation.

A project is a JSON-able model:
  {"recipes": {name: recipe}, "classes": {name: cls}, "default_env": {...},
   "sources": {relpath: content}, "order": [names, root first]}

Step scripts use bash builtins only (process creation is the bottleneck of this
sandbox) and write a *transcript of everything they consumed* -- script salt,
every variable of the variable pool, the content of every file of every
argument and tool -- so that each result is attributable to exactly one set of
inputs.  Output file *names* depend only on things that are part of the step's
Variant-Id (script text / salt), never on input content, so that re-running a
script over its own old output is idempotent (the contract C01 assumes).
"""

import copy
import hashlib
import os

from . import common

VARPOOL = ["VA", "VB", "VC", "VD", "VE"]

DUMP_FN = r'''__dump() {
    local d=$1 f line
    shopt -s globstar nullglob dotglob
    for f in "$d"/**; do
        if [[ -L $f ]]; then echo "L ${f#"$d"/}"
        elif [[ -f $f ]]; then
            echo "F ${f#"$d"/}"
            while IFS= read -r line || [[ -n $line ]]; do echo "  |$line"; done < "$f"
        fi
    done
    shopt -u globstar nullglob dotglob
}
'''

def _vars_fn(weak):
    """Values of weakly consumed variables must not influence the result (Bob
    documents that they neither change the Variant-Id nor trigger rebuilds),
    so the transcript leaves them out."""
    body = " ".join("%s=${%s-<unset>}" % (v, v) for v in VARPOOL if v not in weak)
    return "__vars() {\n    echo \"%s\"\n}\n" % body

def _checkout_script(name, salt, weak=(), tools=()):
    return _checkout_script0(name, salt, weak) + "".join(
        'echo "tool {t}:" >> src-out.txt; __dump "${{BOB_TOOL_PATHS[{t}]}}" >> src-out.txt\n'.format(t=t) for t in tools)

def _checkout_script0(name, salt, weak=()):
    # Bob re-runs a changed checkout script in place and never deletes anything from
    # a source workspace (bob-clean(1): "workspaces that hold source code are never
    # deleted"), so -- unlike build and package scripts, whose workspaces Bob prunes --
    # every version of a checkout script has to write the same set of paths.
    return ("{fn}{vf}echo \"checkout {n} salt={s}\" > src-out.txt\n__vars >> src-out.txt\n"
            "i=0; for a in \"$@\"; do echo \"arg$((i++)):\" >> src-out.txt; __dump \"$a\" >> src-out.txt; done\n"
            ).format(fn=DUMP_FN, vf=_vars_fn(weak), n=name, s=salt)

LIBS_FN = ("__libs() {\n    local r=${PWD%/dev/build/*} x; r=${r%/dev/dist/*}; r=${r%/dev/src/*}\n"
           "    [[ $r == \"$PWD\" ]] && r=${PWD%/work/*}\n"
           "    x=${LD_LIBRARY_PATH//\"$r\"/ROOT}\n"
           "    shopt -s extglob; x=${x//\\/+([0-9])\\/workspace//N/workspace}; shopt -u extglob\n"
           "    echo \"libs: $x\"\n}\n")

def _build_script(name, salt, tools, weak=()):
    t = "".join('echo "tool {t}:" >> b-{s}.txt; __dump "${{BOB_TOOL_PATHS[{t}]}}" >> b-{s}.txt\n'.format(t=t, s=salt)
                for t in tools)
    if tools:
        # what the library search path of the used tools looks like (project root normalised)
        t = LIBS_FN + t + "__libs >> b-{s}.txt\n".format(s=salt)
    return ("{fn}{vf}echo \"build {n} salt={s}\" > b-{s}.txt\n__vars >> b-{s}.txt\n"
            "i=0; for a in \"$@\"; do echo \"arg$((i++)):\" >> b-{s}.txt; __dump \"$a\" >> b-{s}.txt; done\n{t}"
            ).format(fn=DUMP_FN, vf=_vars_fn(weak), n=name, s=salt, t=t)

def _package_script(name, salt, tools, weak=()):
    t = "".join('echo "tool {t}:" >> p-{s}.txt; __dump "${{BOB_TOOL_PATHS[{t}]}}" >> p-{s}.txt\n'.format(t=t, s=salt)
                for t in tools)
    if tools:
        t = LIBS_FN + t + "__libs >> p-{s}.txt\n".format(s=salt)
    return ("{fn}{vf}echo \"package {n} salt={s}\" > p-{s}.txt\n__vars >> p-{s}.txt\n"
            "i=0; for a in \"$@\"; do echo \"arg$((i++)):\" >> p-{s}.txt; __dump \"$a\" >> p-{s}.txt; done\n{t}"
            "echo tool-of-{n}-{s} > toolfile.txt\n"
            ).format(fn=DUMP_FN, vf=_vars_fn(weak), n=name, s=salt, t=t)

def gen_project(rng, nmin=3, nmax=7, features=None):
    """features: set of enabled generator features (swarm style)."""
    allf = ["import", "checkoutscript", "vars", "provideVars", "tools", "classes", "provideDeps",
            "weak", "depenv", "multi", "shared", "nobuild", "diamond", "forward", "include", "twins"]
    if features is None:
        features = {f for f in allf if rng.random() < 0.6}
    n = rng.randint(nmin, nmax)
    names = ["root"] + ["r%d" % i for i in range(1, n)]
    model = {"recipes": {}, "classes": {}, "default_env": {}, "sources": {}, "order": names,
             "features": sorted(features)}
    if "vars" in features:
        for v in rng.sample(VARPOOL, rng.randint(0, 3)):
            model["default_env"][v] = "d%d" % rng.randrange(100)
    if "classes" in features:
        for c in range(rng.randint(1, 2)):
            cn = "cls%d" % c
            cls = {"salt": "%x" % rng.getrandbits(24)}
            if rng.random() < 0.5:
                cls["environment"] = {rng.choice(VARPOOL): "c%d" % rng.randrange(100)}
            cls["buildVars"] = rng.sample(VARPOOL, rng.randint(0, 2))
            model["classes"][cn] = cls
    tool_providers = []
    for idx in range(n - 1, -1, -1):
        name = names[idx]
        r = {"salt": {"checkout": "%x" % rng.getrandbits(24), "build": "%x" % rng.getrandbits(24),
                      "package": "%x" % rng.getrandbits(24)},
             "depends": [], "environment": {}, "checkoutVars": [], "buildVars": [], "packageVars": [],
             "buildVarsWeak": [], "provideVars": {}, "provideTools": {}, "provideDeps": [],
             "buildTools": [], "packageTools": [], "inherit": [], "src": None, "build": True, "shared": False}
        later = names[idx + 1:]
        # sources
        k = rng.random()
        if "import" in features and k < 0.4:
            r["src"] = "import"
            for i in range(rng.randint(1, 3)):
                model["sources"]["src/%s/f%d.txt" % (name, i)] = "%s-file%d-%x\n" % (name, i, rng.getrandbits(16))
        elif "checkoutscript" in features and k < 0.8:
            r["src"] = "script"
        if "nobuild" in features and rng.random() < 0.2 and r["src"] is None:
            r["build"] = False
        # dependencies
        if later:
            ndeps = rng.randint(0 if idx else 1, min(3, len(later)))
            deps = rng.sample(later, ndeps)
            if "diamond" in features and len(later) >= 1 and rng.random() < 0.5:
                deps.append(later[-1])
            seen = set()
            for d in deps:
                if d in seen:
                    continue
                seen.add(d)
                ent = {"name": d, "use": ["result", "deps"]}
                if "provideVars" in features and model["recipes"][d]["provideVars"] and rng.random() < 0.7:
                    ent["use"].append("environment")
                if "tools" in features and model["recipes"][d]["provideTools"] and rng.random() < 0.8:
                    ent["use"].append("tools")
                if "forward" in features and rng.random() < 0.3:
                    ent["forward"] = True
                if "depenv" in features and rng.random() < 0.4:
                    ent["environment"] = {rng.choice(VARPOOL): "e%d" % rng.randrange(100)}
                if "substenv" in features and rng.random() < 0.4:
                    # value computed from another variable (touches it only when evaluated)
                    ent.setdefault("environment", {})[rng.choice(VARPOOL)] = "${%s:-none}-s" % rng.choice(VARPOOL)
                if "ifdeps" in features and rng.random() < 0.35:
                    v = rng.choice(VARPOOL)
                    ent["if"] = rng.choice(['${%s:-}' % v, '$(eq,"${%s:-}","d1")' % v, '$(ne,"${%s:-x}","x")' % v] +
                                           (['$(is-sandbox-enabled)', '$(not,$(is-sandbox-enabled))'] if "sandbox" in features else []))
                r["depends"].append(ent)
        if "vars" in features:
            for v in rng.sample(VARPOOL, rng.randint(0, 2)):
                r["environment"][v] = "%s-%d" % (name, rng.randrange(100))
            r["checkoutVars"] = rng.sample(VARPOOL, rng.randint(0, 1)) if r["src"] == "script" else []
            r["buildVars"] = rng.sample(VARPOOL, rng.randint(0, 3))
            r["packageVars"] = rng.sample(VARPOOL, rng.randint(0, 2))
            if "weak" in features:
                strong = set(r["checkoutVars"]) | set(r["buildVars"]) | set(r["packageVars"])
                r["buildVarsWeak"] = [v for v in rng.sample(VARPOOL, rng.randint(0, 1)) if v not in strong]
        if "provideVars" in features and rng.random() < 0.5 and idx:
            r["provideVars"] = {rng.choice(VARPOOL): "pv-%s-%d" % (name, rng.randrange(100))}
        if "tools" in features and rng.random() < 0.4 and idx:
            r["provideTools"] = {"tool_" + name: {"path": ".", "libs": rng.choice([[], ["."]])}}
        if "provideDeps" in features and r["depends"] and rng.random() < 0.3 and idx:
            r["provideDeps"] = [rng.choice(r["depends"])["name"]]
        if "passthrough" in features and r["depends"] and idx and rng.random() < 0.5:
            # a dependency that the recipe only hands on to its users (use: [] + provideDeps): the
            # recipe keeps one Variant-Id whatever variant of the dependency hangs below it
            ent = rng.choice(r["depends"])
            ent["use"] = []
            ent.pop("forward", None)
            if ent["name"] not in r["provideDeps"]:
                r["provideDeps"] = r["provideDeps"] + [ent["name"]]
        if "classes" in features and model["classes"] and rng.random() < 0.5:
            r["inherit"] = [rng.choice(sorted(model["classes"]))]
        if ("include" in features or "include_files" in features) and rng.random() < 0.45:
            # script include with a glob that matches several files; "'" (literal) costs no
            # process at run time, "<" and "@" (temporary files) only in graph-only checks
            r["include"] = {"dir": "inc_" + name,
                            "mode": rng.choice(["'", "<", "@"]) if "include_files" in features else "'",
                            "files": {"%s%d.cfg" % (rng.choice("abcxyz"), i): "cfg-%s-%d-%d" % (name, i, rng.randrange(1000))
                                      for i in range(rng.randint(2, 4))}}
        if "fingerprint" in features and rng.random() < 0.4:
            r["fingerprint"] = True
        if "nonreloc" in features and rng.random() < 0.25:
            r["relocatable"] = False
        model["recipes"][name] = r
        if "shared" in features and rng.random() < 0.4 and idx and _deterministic(model, name):
            r["shared"] = True
    if "inhtools" in features and n >= 5:
        # A consumer X that takes "toolA" from whoever is above it: below root it is
        # provided by P1, below the intermediate recipe Y by P2.  X is reached on both
        # paths with identical environment but different tools.
        X, P1, P2, Y = names[-1], names[-2], names[-3], names[1]
        for P in (P1, P2):
            pr = model["recipes"][P]
            pr["depends"] = []
            pr["provideDeps"] = []
            pr["buildTools"] = []
            pr["provideTools"] = {"toolA": {"path": rng.choice([".", "sub"]), "libs": rng.choice([[], ["."]])}}
        xr = model["recipes"][X]
        xr["provideTools"] = {k: v for k, v in xr["provideTools"].items() if k != "toolA"}
        xr["inhTools"] = ["toolA"]
        def put_first(rname, dep, tools):
            r = model["recipes"][rname]
            r["depends"] = [d for d in r["depends"] if d["name"] != dep]
            ent = {"name": dep, "use": ["result", "deps"] + (["tools"] if tools else [])}
            if tools:
                ent["forward"] = True
                r["depends"].insert(0, ent)
            else:
                r["depends"].append(ent)
        put_first("root", P1, True)
        put_first("root", X, False)
        if Y not in (X, P1, P2):
            put_first(Y, P2, True)
            put_first(Y, X, False)
            put_first("root", Y, False)
            if rng.random() < 0.5:
                model["recipes"][Y]["inhTools"] = ["toolA"]
        for other in names[1:-3]:
            if other != Y and rng.random() < 0.3:
                model["recipes"][other]["inhTools"] = ["toolA"]
    base_names = list(names)
    if "weaktool" in features:
        # provider of a tool that is only consumed weakly
        model["recipes"]["pw"] = _leaf(rng)
        model["recipes"]["pw"]["provideTools"] = {"toolW": {"path": ".", "libs": []}}
        model["order"].append("pw")
        model["recipes"]["root"]["depends"].insert(0, {"name": "pw", "use": ["tools"], "forward": True})
        for x in base_names[1:]:
            if rng.random() < 0.5:
                model["recipes"][x]["buildToolsWeak"] = ["toolW"]
        model["recipes"]["root"]["buildToolsWeak"] = ["toolW"]
    if "sandbox" in features:
        model["recipes"]["sbx"] = _leaf(rng)
        model["recipes"]["sbx"]["provideSandbox"] = {"paths": ["/usr/bin", "/bin"]}
        model["order"].append("sbx")
        model["recipes"]["root"]["depends"].insert(0, {"name": "sbx", "use": ["sandbox"], "forward": True})
    if "weakvar" in features:
        model["default_env"]["VW"] = "w%d" % rng.randrange(100)
        for x in base_names:
            if rng.random() < 0.6:
                model["recipes"][x]["buildVarsWeak"] = sorted(set(model["recipes"][x]["buildVarsWeak"]) | {"VW"})
    # tool consumption: a recipe may use tools it can see (from deps with use: tools)
    for name in names:
        r = model["recipes"][name]
        vis = []
        for d in r["depends"]:
            if "tools" in d["use"]:
                # toolW is by contract consumed weakly only (C03 varies its variant)
                vis.extend(t for t in model["recipes"][d["name"]]["provideTools"] if t != "toolW")
        if vis and "tools" in features:
            r["buildTools"] = sorted(set(rng.sample(vis, rng.randint(0, len(vis)))))
            if rng.random() < 0.3:
                r["packageTools"] = sorted(set(rng.sample(vis, rng.randint(0, len(vis)))))
            if "checkouttools" in features and r["src"] == "script" and rng.random() < 0.6:
                r["checkoutTools"] = sorted(set(rng.sample(vis, rng.randint(1, len(vis)))))
    if "twins" in features and n >= 3:
        # two recipes with identical content: equal Variant-Ids (and Build-Ids) under different
        # recipe names -- separate workspaces in develop mode, one artifact in an archive
        cands = [x for x in base_names[1:] if not model["recipes"][x]["provideTools"]]
        if cands:
            x = rng.choice(cands)
            t = "tw" + x
            tw = copy.deepcopy(model["recipes"][x])
            tw["label"] = x
            tw["shared"] = False
            model["recipes"][t] = tw
            model["order"].insert(model["order"].index(x) + 1, t)
            # whoever uses the original may use the twin as well; root always does
            for user in ["root"] + [u for u in base_names[1:] if u != x and rng.random() < 0.3
                                    and any(d["name"] == x for d in model["recipes"][u]["depends"])]:
                ur = model["recipes"][user]
                if not any(d["name"] == t for d in ur["depends"]):
                    ur["depends"].insert(rng.randint(0, len(ur["depends"])), {"name": t, "use": ["result", "deps"]})
    return model

def add_url_sources(rng, model, p=0.6):
    """Turn some source-less / script recipes into url-SCM-only checkouts (opt-in: C05)."""
    n = 0
    for name in model["order"]:
        r = model["recipes"][name]
        if r.get("label") or not r["build"] or r["src"] == "import" or r.get("checkoutTools"):
            continue
        if any(x.get("label") == name for x in model["recipes"].values()):
            continue
        if rng.random() < p:
            r["src"] = "url"
            r["checkoutVars"] = []
            r["url"] = {"rev": 0, "content": "upstream-%s-%x\n" % (name, rng.getrandbits(32)),
                        "dir": rng.choice(["dl", "dl", "."]), "fileName": rng.choice([None, "data.bin"])}
            n += 1
    if n:
        model["features"] = sorted(set(model["features"]) | {"urlscm"})
    return n

def add_tool_remap(rng, model):
    """Opt-in shape (C03, C04): a recipe that only *hands on* a tool under another name
    (`depends: [{name: x, tools: {cc: hostcc}}]`) and is reached under two providers of that tool."""
    def leaf():
        return _leaf(rng)
    for n in ("tca", "tcb", "rmid", "rleaf", "wa", "wb"):
        if n in model["recipes"]:
            return False
    tca, tcb = leaf(), leaf()
    tca["provideTools"] = {"hostcc": {"path": ".", "libs": []}}
    tcb["provideTools"] = {"hostcc": {"path": ".", "libs": []}}
    rleaf = leaf(); rleaf["buildTools"] = ["cc"]; rleaf["keepTools"] = True
    if rng.random() < 0.5:
        rleaf["packageTools"] = ["cc"]
    rmid = leaf(); rmid["depends"] = [{"name": "rleaf", "use": ["result", "deps"], "tools": {"cc": "hostcc"}}]; rmid["keepTools"] = True
    if rng.random() < 0.4:
        rmid["build"] = False
    wa, wb = leaf(), leaf()
    wa["depends"] = [{"name": "tca", "use": ["tools"], "forward": True}, {"name": "rmid", "use": ["result", "deps"]}]
    wb["depends"] = [{"name": "tcb", "use": ["tools"], "forward": True}, {"name": "rmid", "use": ["result", "deps"]}]
    wa["keepTools"] = wb["keepTools"] = True
    names = ["wa", "wb"]
    rng.shuffle(names)
    for n, r in (("wa", wa), ("wb", wb), ("rmid", rmid), ("rleaf", rleaf), ("tca", tca), ("tcb", tcb)):
        model["recipes"][n] = r
    model["order"] = model["order"] + [names[0], names[1], "rmid", "rleaf", "tca", "tcb"]
    root = model["recipes"]["root"]
    for n in names:
        root["depends"].insert(rng.randint(0, len(root["depends"])), {"name": n, "use": ["result", "deps"]})
    model["features"] = sorted(set(model["features"]) | {"toolremap"})
    return True

def closure(model, start="root"):
    """Recipes reachable from `start` over `depends` (conditions ignored)."""
    seen, todo = set(), [start]
    while todo:
        n = todo.pop()
        if n in seen or n not in model["recipes"]:
            continue
        seen.add(n)
        todo.extend(d["name"] for d in model["recipes"][n]["depends"])
    return seen

def write_upstream(model):
    """Publish the files the url SCMs of this project state refer to (older revisions stay)."""
    up = model.get("upstream_root")
    if not up:
        return
    os.makedirs(up, exist_ok=True)
    for name, r in model["recipes"].items():
        if r["src"] == "url":
            fn = os.path.join(up, "%s-r%d.dat" % (r.get("label", name), r["url"]["rev"]))
            if not os.path.exists(fn):
                common.write_file(fn, r["url"]["content"])

def _leaf(rng):
    return {"salt": {"checkout": "%x" % rng.getrandbits(24), "build": "%x" % rng.getrandbits(24),
                     "package": "%x" % rng.getrandbits(24)},
            "depends": [], "environment": {}, "checkoutVars": [], "buildVars": [], "packageVars": [],
            "buildVarsWeak": [], "provideVars": {}, "provideTools": {}, "provideDeps": [],
            "buildTools": [], "packageTools": [], "inherit": [], "src": None, "build": True, "shared": False}

def _deterministic(model, name, seen=None):
    """No import SCM (indeterministic by Bob's definition) in the closure."""
    seen = seen if seen is not None else set()
    if name in seen:
        return True
    seen.add(name)
    r = model["recipes"][name]
    if r["src"] == "import":
        return False
    return all(_deterministic(model, d["name"], seen) for d in r["depends"] if d["name"] in model["recipes"])

def gen_valid_project(rng, tries=6, **kw):
    """gen_project + a parse in a forked child; falls back to fewer features."""
    from . import bobq
    for t in range(tries):
        m = gen_project(rng, **kw)
        d = common.scratch_dir("projval-%d" % os.getpid())
        try:
            materialise(m, d)
            try:
                bobq.query(d)
                return m
            except bobq.QueryError:
                pass
        finally:
            common.rmtree(d)
        if t >= 2:
            kw = dict(kw, features={"checkoutscript", "vars"})
    raise common.HarnessError("cannot generate a valid project")

# ---------------------------------------------------------------------------
# materialisation

def _yaml_recipe(name, r, model):
    import yaml
    d = {}
    rname = name
    # a twin recipe has another name but, to the letter, the content of its original
    name = r.get("label", name)
    if rname == "root":
        d["root"] = True
    if r["inherit"]:
        d["inherit"] = list(r["inherit"])
    if r["environment"]:
        d["environment"] = dict(r["environment"])
    for k in ("checkoutVars", "buildVars", "packageVars", "buildVarsWeak"):
        if r[k]:
            d[k] = list(r[k])
    if r["depends"]:
        deps = []
        for e in r["depends"]:
            if e["use"] == ["result", "deps"] and not e.get("forward") and not e.get("environment") and not e.get("if") and not e.get("tools"):
                deps.append(e["name"])
            else:
                x = {"name": e["name"], "use": list(e["use"])}
                if e.get("forward"):
                    x["forward"] = True
                if e.get("environment"):
                    x["environment"] = dict(e["environment"])
                if e.get("if"):
                    x["if"] = e["if"]
                if e.get("tools"):
                    x["tools"] = dict(e["tools"])
                deps.append(x)
        d["depends"] = deps
    if r["src"] == "import":
        d["checkoutSCM"] = {"scm": "import", "url": "src/%s" % name, "prune": True}
    elif r["src"] == "url":
        # deterministic checkout that consists of an SCM only (no script): a file fetched from an
        # "upstream" directory outside the project, pinned by its digest
        u = r["url"]
        d["checkoutSCM"] = {"scm": "url", "url": "%s/%s-r%d.dat" % (model.get("upstream_root", "/nonexistent-upstream"), name, u["rev"]),
                            "digestSHA1": hashlib.sha1(u["content"].encode()).hexdigest(), "dir": u.get("dir", "dl")}
        if u.get("fileName"):
            d["checkoutSCM"]["fileName"] = u["fileName"]
    elif r["src"] == "script":
        d["checkoutDeterministic"] = True
        d["checkoutScript"] = _checkout_script(name, r["salt"]["checkout"], r["buildVarsWeak"], r.get("checkoutTools", ()))
        if r.get("checkoutTools"):
            d["checkoutTools"] = list(r["checkoutTools"])
    if r.get("fingerprint"):
        # host dependent result, declared to Bob through a fingerprint: both read the
        # emulated host id from a file outside the project
        hf = model.get("hostfile", "/nonexistent-hostfile")
        d["fingerprintIf"] = True
        # (the recipe's label makes the scripts of different recipes distinct: each one is a job of its own)
        d["fingerprintScript"] = '# fingerprint of %s\nIFS= read -r h < "%s"\necho "host=$h"\n' % (name, hf)
    if r.get("relocatable") is False:
        d["relocatable"] = False
    if r["build"]:
        d["buildScript"] = _build_script(name, r["salt"]["build"], sorted(set(r["buildTools"]) | set(r.get("inhTools", []))),
                                         r["buildVarsWeak"])
        if r.get("fingerprint"):
            d["buildScript"] += 'IFS= read -r h < "%s"\necho "built-on-host=$h" >> b-%s.txt\n' % (hf, r["salt"]["build"])
    d["packageScript"] = _package_script(name, r["salt"]["package"], r["packageTools"], r["buildVarsWeak"])
    inc = r.get("include")
    if inc and inc["files"]:
        pat = "%s/*.cfg" % inc["dir"]
        out = "p-%s.txt" % r["salt"]["package"]
        if inc["mode"] == "'":
            d["packageScript"] += "INC=$<'%s'>\necho \"include: $INC\" >> %s\n" % (pat, out)
        elif inc["mode"] == "<":
            d["packageScript"] += "while IFS= read -r l; do echo \"include: $l\" >> %s; done < $<<%s>>\n" % (out, pat)
        else:
            d["packageScript"] += "for f in $<@%s@>; do IFS= read -r l < \"$f\"; echo \"include: $l\" >> %s; done\n" % (pat, out)
    if r["buildTools"] or r.get("inhTools"):
        d["buildTools"] = sorted(set(r["buildTools"]) | set(r.get("inhTools", [])))
    if r["packageTools"]:
        d["packageTools"] = list(r["packageTools"])
    if r["provideVars"]:
        d["provideVars"] = dict(r["provideVars"])
    if r["provideTools"]:
        d["provideTools"] = copy.deepcopy(r["provideTools"])
    if r["provideDeps"]:
        d["provideDeps"] = list(r["provideDeps"])
    if r["shared"]:
        d["shared"] = True
    for k in ("buildToolsWeak", "provideSandbox", "metaEnvironment", "packageAuditFiles"):
        if r.get(k):
            d[k] = copy.deepcopy(r[k])
    for k in ("buildNetAccess", "packageNetAccess", "jobServer"):
        if r.get(k):
            d[k] = True
    return yaml.safe_dump(d, default_flow_style=False, sort_keys=True)

def _yaml_class(name, c):
    import yaml
    d = {}
    if c.get("environment"):
        d["environment"] = dict(c["environment"])
    if c.get("buildVars"):
        d["buildVars"] = list(c["buildVars"])
    d["buildSetup"] = "CLS_%s=%s\n" % (name, c["salt"])
    d["buildScript"] = "echo class-%s-%s > cls-%s.txt\n" % (name, c["salt"], name)
    return yaml.safe_dump(d, default_flow_style=False, sort_keys=True)

def files_of(model, extra_config=None):
    """Return {relative path: content} of the whole project."""
    import yaml
    out = {}
    cfg = {"bobMinimumVersion": "1.3.dev999"}
    if extra_config:
        cfg.update(extra_config)
    out["config.yaml"] = yaml.safe_dump(cfg, default_flow_style=False, sort_keys=True)
    dflt = {}
    if model["default_env"]:
        dflt["environment"] = dict(model["default_env"])
    if model.get("default_extra"):
        dflt.update(copy.deepcopy(model["default_extra"]))
    out["default.yaml"] = yaml.safe_dump(dflt, default_flow_style=False, sort_keys=True) if dflt else "{}\n"
    for name, r in model["recipes"].items():
        out["recipes/%s.yaml" % name] = _yaml_recipe(name, r, model)
    for name, c in model["classes"].items():
        out["classes/%s.yaml" % name] = _yaml_class(name, c)
    for p, content in model["sources"].items():
        out[p] = content
    for name, r in model["recipes"].items():
        inc = r.get("include")
        if inc:
            for fn, content in inc["files"].items():
                out["recipes/%s/%s" % (inc["dir"], fn)] = content + "\n"
    return out

class StampClock:
    def __init__(self, start=1_600_000_000):
        self.t = start
    def tick(self):
        self.t += 1
        return self.t

def materialise(model, root, clock=None, prev=None, extra_config=None):
    """Write the project files below root.  Only files whose content changed
    (w.r.t. `prev`, the dict returned by the previous call) are rewritten, and
    every rewritten file gets a fresh mtime from the simulated clock."""
    files = files_of(model, extra_config)
    prev = prev or {}
    for p, content in files.items():
        if prev.get(p) == content and os.path.exists(os.path.join(root, p)):
            continue
        full = os.path.join(root, p)
        common.write_file(full, content)
        if clock is not None:
            t = clock.tick()
            os.utime(full, (t, t))
    for p in prev:
        if p not in files:
            try:
                os.unlink(os.path.join(root, p))
            except FileNotFoundError:
                pass
    return files

# ---------------------------------------------------------------------------
# edits

EDIT_KINDS = ["salt", "var_value", "var_list", "default_env", "dep_add", "dep_remove", "dep_env",
              "provide_var", "src_modify", "src_add", "src_delete", "tool_libs", "class_salt", "revert",
              "use_toggle", "dep_reorder", "inc_modify", "inc_add", "tool_path"]

CONTENT_EDITS = ["src_modify", "src_modify", "src_add", "src_delete"]

def gen_edit(rng, model, history, kinds=None, value_pool=None):
    """Return an edit (JSON-able) applicable to model, or None.  With a
    value_pool, variable values are drawn from it so that variants recur."""
    names = model["order"]
    def val(prefix):
        return rng.choice(value_pool) if value_pool else "%s%d" % (prefix, rng.randrange(1000))
    for _ in range(30):
        kind = rng.choice(kinds or EDIT_KINDS)
        r_name = rng.choice(names)
        r = model["recipes"][r_name]
        if kind == "salt":
            step = rng.choice(["checkout", "build", "package"])
            if step == "checkout" and r["src"] != "script":
                continue
            if step == "build" and not r["build"]:
                continue
            return {"kind": "salt", "recipe": r_name, "step": step, "value": "%x" % rng.getrandbits(24)}
        if kind == "inc_modify" and r.get("include") and r["include"]["files"]:
            fn = rng.choice(sorted(r["include"]["files"]))
            return {"kind": "inc_modify", "recipe": r_name, "file": fn, "content": "cfgm-%d" % rng.randrange(10000)}
        if kind == "inc_add" and r.get("include"):
            return {"kind": "inc_add", "recipe": r_name, "file": "%s%d.cfg" % (rng.choice("abcxyz"), rng.randrange(10, 99)),
                    "content": "cfga-%d" % rng.randrange(10000)}
        if kind == "var_value" and r["environment"]:
            v = rng.choice(sorted(r["environment"]))
            return {"kind": "var_value", "recipe": r_name, "var": v, "value": val("n")}
        if kind == "var_list":
            lst = rng.choice(["buildVars", "packageVars", "buildVarsWeak"] + (["checkoutVars"] if r["src"] == "script" else []))
            v = rng.choice(VARPOOL)
            return {"kind": "var_list", "recipe": r_name, "list": lst, "var": v}
        if kind == "default_env":
            v = rng.choice(VARPOOL)
            return {"kind": "default_env", "var": v, "value": rng.choice([None, "dd%d" % rng.randrange(1000)])}
        if kind == "dep_add":
            idx = names.index(r_name)
            later = [n for n in names[idx + 1:] if n not in [d["name"] for d in r["depends"]]]
            if not later:
                continue
            return {"kind": "dep_add", "recipe": r_name, "dep": rng.choice(later), "pos": rng.randint(0, len(r["depends"]))}
        if kind == "dep_remove" and len(r["depends"]) > (1 if r_name == "root" else 0):
            i = rng.randrange(len(r["depends"]))
            return {"kind": "dep_remove", "recipe": r_name, "index": i}
        if kind == "dep_env" and r["depends"]:
            i = rng.randrange(len(r["depends"]))
            return {"kind": "dep_env", "recipe": r_name, "index": i, "var": rng.choice(VARPOOL),
                    "value": rng.choice([None, val("de"), val("de")])}
        if kind == "provide_var" and r_name != "root":
            return {"kind": "provide_var", "recipe": r_name, "var": rng.choice(VARPOOL),
                    "value": rng.choice([None, "pp%d" % rng.randrange(1000)])}
        if kind == "use_toggle" and r["depends"]:
            i = rng.randrange(len(r["depends"]))
            return {"kind": "use_toggle", "recipe": r_name, "index": i, "what": rng.choice(["environment", "tools", "forward"])}
        if kind == "dep_reorder" and len(r["depends"]) >= 2:
            return {"kind": "dep_reorder", "recipe": r_name}
        srcs = sorted(p for p in model["sources"] if p.startswith("src/%s/" % r_name))
        if kind == "src_modify" and srcs:
            return {"kind": "src_modify", "path": rng.choice(srcs), "content": "mod-%x\n" % rng.getrandbits(24),
                    "same_size": rng.random() < 0.3}
        if kind == "src_add" and r["src"] == "import":
            return {"kind": "src_add", "path": "src/%s/n%d.txt" % (r_name, rng.randrange(5)), "content": "new-%x\n" % rng.getrandbits(24)}
        if kind == "src_delete" and len(srcs) > 1:
            return {"kind": "src_delete", "path": rng.choice(srcs)}
        if kind == "tool_path" and r["provideTools"]:
            t = rng.choice(sorted(r["provideTools"]))
            return {"kind": "tool_path", "recipe": r_name, "tool": t,
                    "path": "sub" if r["provideTools"][t]["path"] == "." else "."}
        if kind == "tool_libs" and r["provideTools"]:
            t = sorted(r["provideTools"])[0]
            return {"kind": "tool_libs", "recipe": r_name, "tool": t, "libs": rng.choice([[], ["."], ["lib"]])}
        if kind == "class_salt" and model["classes"]:
            return {"kind": "class_salt", "cls": rng.choice(sorted(model["classes"])), "value": "%x" % rng.getrandbits(24)}
        if kind == "url_change" and r["src"] == "url" and r_name in closure(model):
            return {"kind": "url_change", "recipe": r_name, "content": "upstream-%s-%x\n" % (r_name, rng.getrandbits(32))}
        if kind == "revert" and history:
            return {"kind": "revert", "to": rng.randrange(len(history))}
    return None

NEUTRAL_EDITS = ["n_metaenv", "n_netaccess", "n_jobserver", "n_auditfiles", "n_weakvar"]

def gen_neutral_edit(rng, model):
    """Edits that must not change any Variant-Id or Build-Id."""
    k = rng.choice(NEUTRAL_EDITS)
    r = rng.choice([n for n in model["order"]])
    if k == "n_weakvar":
        if "VW" not in model["default_env"]:
            k = "n_metaenv"
        else:
            return {"kind": k, "value": "w%d" % rng.randrange(1000, 2000)}
    return {"kind": k, "recipe": r, "value": "m%d" % rng.randrange(1000)}

def apply_edit(model, edit, history):
    """Apply edit to a *copy* of model; returns the new model (or the old one
    if the edit is not applicable any more, e.g. after shrinking)."""
    m = copy.deepcopy(model)
    k = edit["kind"]
    try:
        if k == "revert":
            if edit["to"] < len(history):
                return copy.deepcopy(history[edit["to"]])
            return m
        if k == "default_env":
            if edit["value"] is None:
                m["default_env"].pop(edit["var"], None)
            else:
                m["default_env"][edit["var"]] = edit["value"]
            return m
        if k == "class_salt":
            m["classes"][edit["cls"]]["salt"] = edit["value"]
            return m
        if k in ("inc_modify", "inc_add"):
            inc = m["recipes"][edit["recipe"]].get("include")
            if inc and (k == "inc_add" or edit["file"] in inc["files"]):
                inc["files"][edit["file"]] = edit["content"]
            return m
        if k in ("src_modify", "src_add"):
            if k == "src_modify" and edit["path"] not in m["sources"]:
                return m
            content = edit["content"]
            if edit.get("same_size") and edit["path"] in m["sources"]:
                old = m["sources"][edit["path"]]
                content = (content * (len(old) // len(content) + 1))[:len(old)]
                if content == old:
                    content = ("X" + content)[:len(old)]
            m["sources"][edit["path"]] = content
            return m
        if k == "src_delete":
            rn = edit["path"].split("/")[1]
            left = [p for p in m["sources"] if p.startswith("src/%s/" % rn)]
            if len(left) > 1:
                m["sources"].pop(edit["path"], None)
            return m
        if k == "n_weakvar":
            m["default_env"]["VW"] = edit["value"]
            return m
        r = m["recipes"][edit["recipe"]]
        if k == "n_metaenv":
            r.setdefault("metaEnvironment", {})["LICENSE"] = edit["value"]
            return m
        if k == "n_netaccess":
            r["buildNetAccess"] = not r.get("buildNetAccess", False)
            r["packageNetAccess"] = not r.get("packageNetAccess", False)
            return m
        if k == "n_jobserver":
            r["jobServer"] = not r.get("jobServer", False)
            return m
        if k == "n_auditfiles":
            r["packageAuditFiles"] = {"NOTE": "note-%s.txt" % edit["value"]}
            return m
        if k == "salt":
            r["salt"][edit["step"]] = edit["value"]
        elif k == "url_change":
            if r["src"] == "url":
                # a new upstream release: other URL, other digest (revision numbers never recur)
                r["url"]["rev"] = 1 + max([x["url"]["rev"] for h in list(history) + [m] for x in h["recipes"].values() if x.get("url")])
                r["url"]["content"] = edit["content"]
        elif k == "var_value":
            if edit["var"] in r["environment"]:
                r["environment"][edit["var"]] = edit["value"]
        elif k == "var_list":
            lst = r[edit["list"]]
            if edit["var"] in lst:
                lst.remove(edit["var"])
            else:
                lst.append(edit["var"])
                # a variable is either weakly or strongly consumed by a recipe
                if edit["list"] == "buildVarsWeak":
                    for o in ("checkoutVars", "buildVars", "packageVars"):
                        if edit["var"] in r[o]:
                            r[o].remove(edit["var"])
                elif edit["var"] in r["buildVarsWeak"]:
                    r["buildVarsWeak"].remove(edit["var"])
        elif k == "dep_add":
            if edit["dep"] in m["recipes"] and edit["dep"] not in [d["name"] for d in r["depends"]]:
                order = m["order"]
                if order.index(edit["dep"]) > order.index(edit["recipe"]):
                    r["depends"].insert(min(edit["pos"], len(r["depends"])), {"name": edit["dep"], "use": ["result", "deps"]})
        elif k == "dep_remove":
            if edit["index"] < len(r["depends"]) and len(r["depends"]) > (1 if edit["recipe"] == "root" else 0):
                gone = r["depends"].pop(edit["index"])["name"]
                r["provideDeps"] = [d for d in r["provideDeps"] if d != gone or gone in [x["name"] for x in r["depends"]]]
                _fix_tools(m)
        elif k == "dep_env":
            if edit["index"] < len(r["depends"]):
                e = r["depends"][edit["index"]].setdefault("environment", {})
                if edit["value"] is None:
                    e.pop(edit["var"], None)
                else:
                    e[edit["var"]] = edit["value"]
        elif k == "provide_var":
            if edit["value"] is None:
                r["provideVars"].pop(edit["var"], None)
            else:
                r["provideVars"][edit["var"]] = edit["value"]
        elif k == "use_toggle":
            if edit["index"] < len(r["depends"]):
                e = r["depends"][edit["index"]]
                if edit["what"] == "forward":
                    e["forward"] = not e.get("forward", False)
                elif edit["what"] in e["use"]:
                    e["use"].remove(edit["what"])
                    _fix_tools(m)
                else:
                    e["use"].append(edit["what"])
        elif k == "dep_reorder":
            r["depends"] = r["depends"][1:] + r["depends"][:1]
        elif k == "tool_path":
            r = m["recipes"][edit["recipe"]]
            if edit["tool"] in r["provideTools"]:
                r["provideTools"][edit["tool"]]["path"] = edit["path"]
        elif k == "tool_libs":
            if edit["tool"] in r["provideTools"]:
                r["provideTools"][edit["tool"]]["libs"] = list(edit["libs"])
    except (KeyError, IndexError):
        return copy.deepcopy(model)
    return m

def _visible_tools(m, name, memo=None):
    """Tools visible to recipe `name`: provided by deps with use:tools (own
    provided tools of deps, not transitive forwarding -- conservative)."""
    r = m["recipes"][name]
    vis = set()
    for d in r["depends"]:
        if "tools" in d["use"]:
            vis.update(m["recipes"][d["name"]]["provideTools"])
    return vis

def _fix_tools(m):
    """Drop tool usages that are not satisfiable any more."""
    for name, r in m["recipes"].items():
        if r.get("keepTools"):
            continue
        vis = _visible_tools(m, name)
        r["buildTools"] = [t for t in r["buildTools"] if t in vis]
        r["packageTools"] = [t for t in r["packageTools"] if t in vis]
        if r.get("checkoutTools"):
            r["checkoutTools"] = [t for t in r["checkoutTools"] if t in vis]
