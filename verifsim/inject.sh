# Sourced through BASH_ENV by the simulator only (never by a normal build).
# Makes the step script fail or die at its k-th simple command *inside the
# recipe scripts* (after the Bob prolog) without changing the script text.
if [[ -n "${VERIF_FAULT_AT:-}" ]]; then
    __vf_n=0
    __vf_at=$VERIF_FAULT_AT
    __vf_kind=${VERIF_FAULT_KIND:-exit}
    unset BASH_ENV VERIF_FAULT_AT VERIF_FAULT_KIND
    set -o functrace
    trap 'if [[ ${_BOB_SOURCES[*]+x} && ${#_BOB_SOURCES[@]} -ge 2 ]] && (( ++__vf_n == __vf_at )) ; then
              trap - DEBUG
              case $__vf_kind in
                  exit) echo "verif: injected failure at command $__vf_n" >&2 ; exit 7 ;;
                  kill) kill -9 $$ ;;
              esac
          fi' DEBUG
fi
