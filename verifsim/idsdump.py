"""Fresh-interpreter helper for C03: dump all package ids of the project in the
current directory under a perturbed environment.

  python -m verifsim.idsdump ids  <perm_seed> <sandbox 0|1>     -> JSON on stdout
  python -m verifsim.idsdump cli  <perm_seed> <bob args...>     -> runs the real CLI

PYTHONHASHSEED is whatever the caller put into the environment; every directory
listing of the process (os.scandir / os.listdir, hence os.walk of the recipe
parser and glob of the script include resolver) is returned in a permutation
derived from perm_seed.
"""

import asyncio
import hashlib
import json
import os
import random
import sys

class _Listing:
    """os.scandir() result in an order chosen by the simulator."""
    def __init__(self, entries):
        self._it = iter(entries)
    def __iter__(self):
        return self
    def __next__(self):
        return next(self._it)
    def __enter__(self):
        return self
    def __exit__(self, *a):
        return False
    def close(self):
        pass

def _install(perm_seed):
    """Directory listing order is a seam: os.scandir / os.listdir (and with them
    os.walk, glob and everything else built on them) return their entries in a
    permutation derived from perm_seed (0: ascending byte order)."""
    repo = os.environ.get("VERIF_REPO", "/repo")
    sys.path.insert(0, os.path.join(repo, "pym"))
    rng = random.Random(perm_seed)
    real_scandir, real_listdir = os.scandir, os.listdir
    def order(lst, key):
        lst.sort(key=key)
        if perm_seed:
            rng.shuffle(lst)
        return lst
    def scandir(path="."):
        with real_scandir(path) as it:
            entries = list(it)
        return _Listing(order(entries, lambda e: os.fsencode(e.name)))
    def listdir(path="."):
        return order(real_listdir(path), os.fsencode)
    os.scandir = scandir
    os.listdir = listdir
    import bob.input as I
    return I

def dump_ids(perm_seed, sandbox):
    I = _install(perm_seed)
    from bob.cmds.build.build import ExecutableStep, LazyIR
    from bob.utils import getPlatformTag
    from bob.tty import setVerbosity
    setVerbosity(-2)
    recipes = I.RecipeSet()
    recipes.parse({})
    fmt = lambda step, props: os.path.join("ws", step.getLabel(), step.getPackage().getRecipe().getPackageName().replace("::", "/"))
    packages = recipes.generatePackages(fmt, sandbox)
    memo = {}
    async def bid(ir):
        key = (ir.getVariantId(), ir.getWorkspacePath())
        if key in memo:
            return memo[key]
        if ir.isCheckoutStep():
            # supplied source hash: a function of the variant only
            r = hashlib.sha1(b"src" + ir.getVariantId()).digest()
        else:
            async def calc(deps):
                return [await bid(d) for d in deps]
            fp = hashlib.sha1(b"fp").digest() if ir._isFingerprinted() else b""
            r = await ir.getDigestCoro(calc, fingerprint=fp, platform=getPlatformTag(), relaxTools=True)
        memo[key] = r
        return r
    out = {}
    loop = asyncio.new_event_loop()
    count = [0]
    def walk(pkg, path):
        count[0] += 1
        if count[0] > 600:
            return
        ent = {}
        for label, s in (("src", pkg.getCheckoutStep()), ("build", pkg.getBuildStep()), ("dist", pkg.getPackageStep())):
            if s.isValid():
                ir = ExecutableStep.fromStep(s, LazyIR)
                ent[label] = [s.getVariantId().hex(), loop.run_until_complete(bid(ir)).hex()]
        out["/".join(path)] = ent
        for d in pkg.getDirectDepSteps():
            p = d.getPackage()
            walk(p, path + [p.getName()])
    for d in packages.getRootPackage().getDirectDepSteps():
        p = d.getPackage()
        walk(p, [p.getName()])
    loop.close()
    return out

def main():
    mode = sys.argv[1]
    perm_seed = int(sys.argv[2])
    if mode == "ids":
        res = dump_ids(perm_seed, sys.argv[3] == "1")
        sys.stdout.write(json.dumps(res, sort_keys=True))
        return 0
    if mode == "cli":
        _install(perm_seed)
        import bob.scripts
        sys.argv = ["bob"] + sys.argv[3:]
        return bob.scripts.bob(os.path.join(os.environ.get("VERIF_REPO", "/repo"), "bob"))
    return 2

if __name__ == "__main__":
    sys.exit(main())
