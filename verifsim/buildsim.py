"""Shared helpers for the engine-A checks: building a generated project under
the simulator, the clean-build oracle and result comparison."""

import os

from . import common, loopsim, bobq, projgen, treecmp

QUIET_CFG = {"durations": [0]}

def bob(proj, argv, cfg=None, env=None, workdir=None, timeout=180.0):
    return loopsim.run_bob(argv, proj, cfg or {}, env=env, workdir=workdir or os.path.dirname(proj), timeout=timeout)

def dist_map(proj, develop=True, want=()):
    """{package path: entry} with workspace paths of the three steps."""
    return bobq.query(proj, develop=develop, want=want)

def results_of(proj, mapping, label="dist"):
    """{package path: canonical tree} for all packages whose `label` workspace exists."""
    out = {}
    for path, ent in mapping.items():
        s = ent["steps"][label]
        if not s.get("valid") or not s.get("ws"):
            continue
        ws = os.path.join(proj, s["ws"])
        if os.path.isdir(ws):
            out[path] = treecmp.canon(ws)
        else:
            out[path] = None
    return out

class CleanOracle:
    """From-scratch `-j1` build of a project model in an empty, differently
    named directory; memoised per model digest within one case."""
    def __init__(self, root, develop=True, build_args=()):
        self.root = root
        self.develop = develop
        self.build_args = list(build_args)
        self.memo = {}
        self.n = 0
        self.runs = 0

    def get(self, model, extra_config=None, env=None, target="root", key_extra=None, before=None):
        key = common.digest_of([projgen.files_of(model, extra_config), env, target, key_extra])
        if key in self.memo:
            return self.memo[key]
        if before is not None:
            before()
        self.n += 1
        d = os.path.join(self.root, "clean%d" % self.n, "p")
        os.makedirs(d)
        projgen.materialise(model, d, extra_config=extra_config)
        cmd = (["dev"] if self.develop else ["build", "--no-sandbox"]) + self.build_args + [target]
        r = bob(d, cmd, dict(QUIET_CFG), env=env)
        self.runs += 1
        res = None
        if r.rc == 0:
            try:
                res = results_of(d, dist_map(d, self.develop))
            except bobq.QueryError:
                res = None
        out = {"rc": r.rc, "results": res, "output": r.output[-2000:]}
        self.memo[key] = out
        common.rmtree(os.path.join(self.root, "clean%d" % self.n))
        return out

def compare(incr, clean, limit=3):
    """Both are {package path: canon or None}.  Returns list of difference
    descriptions for packages that the clean build produced."""
    diffs = []
    for path in sorted(clean):
        c = clean[path]
        if c is None:
            continue
        i = incr.get(path)
        if i is None:
            diffs.append("%s: result missing in incremental workspace" % path)
        elif i != c:
            diffs.append("%s: %s" % (path, "; ".join(treecmp.diff(i, c, 4))))
        if len(diffs) >= limit:
            break
    return diffs

def step_scripts(result):
    """[(label, script path)] of step scripts executed in an invocation."""
    out = []
    for s in result.scripts_run():
        parts = s.split("/")
        label = None
        if s.startswith("dev/") and len(parts) > 2:
            label = parts[1]
        elif s.startswith("work/"):
            label = parts[-3] if len(parts) >= 3 else None
        out.append((label, s))
    return out

def visited_workspaces(info):
    """Which workspaces did the last invocation visit?  Bob descends into the
    dependencies of a package only if it builds it; a downloaded or shared
    package ends the descent.  `info` is a bobq.query(..., want=("detail","bid"))."""
    by_dist = {}
    for path, ent in info.items():
        d = ent["steps"]["dist"]
        if d.get("valid"):
            by_dist[d["ws"]] = ent
    visited = set()
    def visit(ent):
        d = ent["steps"]["dist"]
        if d["ws"] in visited:
            return
        visited.add(d["ws"])
        if d.get("prov") != "built":
            return
        for lab in ("src", "build"):
            st = ent["steps"][lab]
            if st.get("valid"):
                visited.add(st["ws"])
        for lab in ("src", "build", "dist"):
            st = ent["steps"][lab]
            if not st.get("valid"):
                continue
            for a in list(st.get("args", [])) + list(st.get("tools", {}).values()):
                if a in by_dist:
                    visit(by_dist[a])
    for path, ent in info.items():
        if "/" not in path:
            visit(ent)
    return visited
