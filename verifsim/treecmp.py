"""Independent canonical serialisation of a directory tree.

This is the reference model against which Bob's DirHasher, the archive
round-trip and all "result equals clean build" oracles are compared.  It does
*not* use any Bob code.

An entry is (relative path bytes, type, permission bits, payload) where payload
is the file content digest / link target / nothing.  Timestamps, ownership and
inode numbers are ignored.  Hard links are *not* represented (Bob's directory
hash ignores them too and the properties speak about content).
"""

import hashlib
import os
import stat

SCM_DIRS = (b".git", b".svn", b".portage-cache")
IGN_FILES = (b"BaseDirList.txt",)

def canon(root, ignore_scm=False, content=True, skip=()):
    """Return a sorted list of tuples describing the tree below root.

    ignore_scm: drop .git/.svn/.portage-cache directories and BaseDirList.txt
    files as Bob's DirHasher documents.
    skip: top-level names to leave out.
    """
    root = os.fsencode(root)
    out = []
    skip = {os.fsencode(s) for s in skip}

    def walk(rel):
        full = os.path.join(root, rel) if rel else root
        try:
            names = sorted(os.listdir(full))
        except OSError:
            return
        for n in names:
            if not rel and n in skip:
                continue
            r = os.path.join(rel, n) if rel else n
            p = os.path.join(root, r)
            try:
                st = os.lstat(p)
            except OSError:
                continue
            mode = stat.S_IMODE(st.st_mode)
            if ignore_scm and not stat.S_ISDIR(st.st_mode) and n in IGN_FILES:
                continue
            if stat.S_ISDIR(st.st_mode):
                if ignore_scm and n in SCM_DIRS:
                    continue
                out.append((r, "d", mode, b""))
                walk(r)
            elif stat.S_ISLNK(st.st_mode):
                out.append((r, "l", mode, os.readlink(p)))
            elif stat.S_ISREG(st.st_mode):
                if content:
                    h = hashlib.sha256()
                    try:
                        with open(p, "rb") as f:
                            while True:
                                b = f.read(1 << 16)
                                if not b:
                                    break
                                h.update(b)
                        payload = h.digest()
                    except OSError:
                        payload = b"<unreadable>"
                else:
                    payload = b""
                out.append((r, "f", mode, payload))
            elif stat.S_ISFIFO(st.st_mode):
                out.append((r, "p", mode, b""))
            elif stat.S_ISCHR(st.st_mode) or stat.S_ISBLK(st.st_mode):
                out.append((r, "c" if stat.S_ISCHR(st.st_mode) else "b", mode,
                            str(st.st_rdev).encode()))
            else:
                out.append((r, "?", mode, b""))
    walk(b"")
    out.sort()
    return out

def canon_digest(root, **kw):
    h = hashlib.sha256()
    for (r, t, m, p) in canon(root, **kw):
        h.update(b"%d:" % len(r) + r + t.encode() + b"%o:" % m + b"%d:" % len(p) + p)
    return h.hexdigest()[:32]

def describe(entries, limit=40):
    res = []
    for (r, t, m, p) in entries[:limit]:
        res.append("%s %s %o %s" % (os.fsdecode(r), t, m,
                   p.hex()[:12] if t == "f" else os.fsdecode(p)))
    if len(entries) > limit:
        res.append("... %d more" % (len(entries) - limit))
    return res

def diff(a, b, limit=10):
    """Human readable difference of two canon() lists."""
    da = {e[0]: e for e in a}
    db = {e[0]: e for e in b}
    out = []
    for k in sorted(set(da) | set(db)):
        if da.get(k) != db.get(k):
            def fmt(e):
                if e is None:
                    return "absent"
                return "%s %o %s" % (e[1], e[2], e[3].hex()[:12] if e[1] == "f" else os.fsdecode(e[3]))
            out.append("%s: %s != %s" % (os.fsdecode(k), fmt(da.get(k)), fmt(db.get(k))))
            if len(out) >= limit:
                out.append("...")
                break
    return out
