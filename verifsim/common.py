"""Shared plumbing: repo import, seeded PRNG streams, forked isolated runs, a
small fork-per-item worker pool, scratch directories, digests."""

import errno
import hashlib
import json
import os
import pickle
import random
import select
import shutil
import signal
import sys
import time
import traceback

VERIF_DIR = os.path.dirname(os.path.dirname(os.path.abspath(__file__)))
REPO = os.path.abspath(os.environ.get("VERIF_REPO", "/repo"))
PYM = os.path.join(REPO, "pym")
NPROC = int(os.environ.get("VERIF_NPROC", "0")) or min(16, os.cpu_count() or 1)

_bob_imported = False

def import_bob():
    """Import bob from the *current working tree* of the repository.  Done once
    in the top-level process; every simulated process is a fork of it."""
    global _bob_imported
    if _bob_imported:
        return
    # make sure no other copy (e.g. the editable install) wins
    sys.path[:] = [p for p in sys.path if os.path.abspath(p or ".") != PYM]
    sys.path.insert(0, PYM)
    for m in list(sys.modules):
        if m == "bob" or m.startswith("bob."):
            del sys.modules[m]
    import bob  # noqa
    assert os.path.abspath(os.path.dirname(bob.__file__)) == os.path.join(PYM, "bob"), bob.__file__
    # pre-import everything the simulated processes use: they are forks of this
    # process and must not pay (or race on) imports and .pyc writes
    import importlib
    for m in ("archive", "audit", "builder", "state", "share", "utils", "input", "invoker",
              "languages", "intermediate", "scripts", "tty", "pathspec", "stringparser", "layers",
              "scm", "scm.git", "scm.imp", "scm.url", "scm.scm", "scm.svn", "scm.cvs",
              "cmds.build.build", "cmds.build.clean", "cmds.build.state", "cmds.build.project",
              "cmds.build.query", "cmds.build.status", "cmds.archive", "cmds.misc", "cmds.show",
              "cmds.helpers", "cmds.layers", "generators", "errors"):
        try:
            importlib.import_module("bob." + m)
        except ImportError:
            pass
    _bob_imported = True

# ---------------------------------------------------------------------------
# seeded randomness

def seed_int(*parts):
    h = hashlib.sha256(":".join(str(p) for p in parts).encode()).digest()
    return int.from_bytes(h[:8], "big")

def rng_for(*parts):
    return random.Random(seed_int(*parts))

def digest_of(obj):
    """Stable digest of a JSON-able object (event logs, results)."""
    return hashlib.sha256(json.dumps(obj, sort_keys=True, default=_json_default).encode()).hexdigest()[:24]

def _json_default(o):
    if isinstance(o, (bytes, bytearray)):
        return "hex:" + bytes(o).hex()
    if isinstance(o, (set, frozenset)):
        return sorted(o)
    if isinstance(o, tuple):
        return list(o)
    return repr(o)

def jdump(obj, **kw):
    return json.dumps(obj, default=_json_default, **kw)

# ---------------------------------------------------------------------------
# scratch space

def _scratch_base():
    for cand in (os.environ.get("VERIF_SCRATCH"), "/dev/shm"):
        if cand and os.path.isdir(cand) and os.access(cand, os.W_OK):
            return cand
    import tempfile
    return tempfile.gettempdir()

_TOP = None

def scratch_top():
    """One directory per top-level harness process; removed at exit."""
    global _TOP
    if _TOP is None:
        _TOP = os.environ.get("VERIF_SCRATCH_TOP")
        if not _TOP:
            _TOP = os.path.join(_scratch_base(), "vs%d" % os.getpid())
            os.environ["VERIF_SCRATCH_TOP"] = _TOP
            os.makedirs(_TOP, exist_ok=True)
            import atexit
            pid = os.getpid()
            def _cleanup():
                if os.getpid() == pid:
                    rmtree(_TOP)
            atexit.register(_cleanup)
    return _TOP

def scratch_dir(tag):
    p = os.path.join(scratch_top(), tag)
    rmtree(p)
    os.makedirs(p)
    return p

def rmtree(p):
    def onerr(func, path, exc):
        try:
            os.chmod(os.path.dirname(path), 0o700)
            os.chmod(path, 0o700)
            func(path)
        except OSError:
            pass
    if os.path.islink(p) or os.path.isfile(p):
        try: os.unlink(p)
        except OSError: pass
    elif os.path.isdir(p):
        # directories may have been made read-only by tests
        for root, dirs, files in os.walk(p):
            for d in dirs:
                try: os.chmod(os.path.join(root, d), 0o700)
                except OSError: pass
        shutil.rmtree(p, onerror=onerr)

# ---------------------------------------------------------------------------
# forked, isolated execution

class HarnessError(Exception):
    pass

class ChildResult:
    __slots__ = ("status", "value", "wall")
    def __init__(self, status, value, wall):
        self.status = status    # 'ok' | 'exc' | 'timeout' | 'died'
        self.value = value
        self.wall = wall

try:
    import ctypes
    _libc = ctypes.CDLL(None, use_errno=True)
except Exception:
    _libc = None

def die_with_parent():
    """PR_SET_PDEATHSIG(SIGKILL): simulated processes never outlive the harness."""
    global _libc
    try:
        if _libc is None:
            import ctypes
            _libc = ctypes.CDLL(None, use_errno=True)
        _libc.prctl(1, int(signal.SIGKILL), 0, 0, 0)
    except Exception:
        pass

def _child_main(fn, args, wfd, quiet):
    try:
        die_with_parent()
        signal.signal(signal.SIGINT, signal.SIG_DFL)
        if quiet:
            dn = os.open(os.devnull, os.O_RDWR)
            os.dup2(dn, 0)
            if quiet != "keep-stderr":
                os.dup2(dn, 2)
            os.dup2(dn, 1)
        try:
            val = ("ok", fn(*args))
        except BaseException as e:  # noqa
            val = ("exc", "".join(traceback.format_exception(type(e), e, e.__traceback__)))
        data = pickle.dumps(val)
        off = 0
        while off < len(data):
            off += os.write(wfd, data[off:off + 65536])
        os.close(wfd)
    finally:
        os._exit(0)

class _Job:
    def __init__(self, key, fn, args, timeout, quiet):
        self.key = key
        r, w = os.pipe()
        sys.stdout.flush(); sys.stderr.flush()
        pid = os.fork()
        if pid == 0:
            os.close(r)
            try:
                os.setpgid(0, 0)
            except OSError:
                pass
            _child_main(fn, args, w, quiet)
        os.close(w)
        self.pid = pid
        self.rfd = r
        self.buf = bytearray()
        self.t0 = time.monotonic()
        self.deadline = self.t0 + timeout

    def kill(self):
        for target in (-self.pid, self.pid):
            try:
                os.kill(target, signal.SIGKILL)
            except OSError:
                pass

    def finish(self, status=None):
        try:
            os.close(self.rfd)
        except OSError:
            pass
        # make sure no stray grand-children survive
        self.kill()
        try:
            os.waitpid(self.pid, 0)
        except ChildProcessError:
            pass
        wall = time.monotonic() - self.t0
        if status is not None:
            return ChildResult(status, None, wall)
        if not self.buf:
            return ChildResult("died", None, wall)
        try:
            st, val = pickle.loads(bytes(self.buf))
        except Exception:
            return ChildResult("died", None, wall)
        return ChildResult(st, val, wall)

def run_forked(fn, *args, timeout=120.0, quiet=True):
    """Run fn(*args) in a forked child; returns ChildResult."""
    for key, res in parallel_map([(0, fn, args)], nproc=1, timeout=timeout, quiet=quiet):
        return res

def parallel_map(items, nproc=None, timeout=120.0, quiet=True, stop=None):
    """items: iterable of (key, fn, args).  Fork one child per item, at most
    nproc at a time.  Yields (key, ChildResult) in completion order.  `stop` is
    an optional callable; when it returns True no further items are started."""
    nproc = nproc or NPROC
    it = iter(items)
    active = {}
    exhausted = False
    while True:
        while not exhausted and len(active) < nproc:
            if stop is not None and stop():
                exhausted = True
                break
            try:
                key, fn, args = next(it)
            except StopIteration:
                exhausted = True
                break
            j = _Job(key, fn, args, timeout, quiet)
            active[j.rfd] = j
        if not active:
            if exhausted:
                return
            continue
        now = time.monotonic()
        wait = max(0.0, min(j.deadline for j in active.values()) - now)
        rl, _, _ = select.select(list(active), [], [], min(wait, 1.0))
        for fd in rl:
            j = active[fd]
            try:
                chunk = os.read(fd, 1 << 20)
            except OSError as e:
                if e.errno == errno.EINTR:
                    continue
                chunk = b""
            if chunk:
                j.buf += chunk
            else:
                del active[fd]
                yield j.key, j.finish()
        now = time.monotonic()
        for fd, j in list(active.items()):
            if now > j.deadline:
                del active[fd]
                yield j.key, j.finish("timeout")

# ---------------------------------------------------------------------------
# misc helpers

class Counter(dict):
    def inc(self, k, n=1):
        self[k] = self.get(k, 0) + n
    def merge(self, other):
        for k, v in (other or {}).items():
            if isinstance(v, (int, float)):
                self[k] = self.get(k, 0) + v

def write_file(path, data, mode=None):
    d = os.path.dirname(path)
    if d:
        os.makedirs(d, exist_ok=True)
    if isinstance(data, str):
        data = data.encode()
    with open(path, "wb") as f:
        f.write(data)
    if mode is not None:
        os.chmod(path, mode)

def read_file(path):
    with open(path, "rb") as f:
        return f.read()

def pin_process_nondeterminism(seed=0):
    """Inside a worker child: pin the process-global sources of nondeterminism
    that leak into produced bytes -- gzip header timestamps and tempfile names."""
    import gzip, tempfile, types, random
    gzip.time = types.SimpleNamespace(time=lambda: 1_500_000_000.0)
    ns = tempfile._RandomNameSequence()
    ns._rng = random.Random(seed)
    ns._rng_pid = os.getpid()
    tempfile._name_sequence = ns

def scratch_case_dir(prefix):
    """Scratch directory whose path length does not depend on the pid."""
    return scratch_dir("%s-%07d" % (prefix, os.getpid()))
