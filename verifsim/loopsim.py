"""Engine A: one real Bob invocation under a simulated asyncio event loop.

`run_bob()` forks a child that runs the real CLI entry `bob.scripts.bob()` with
`EventLoopWrapper` rebound to return a `SimLoop`:

* virtual time: `time()` is a counter; when nothing is ready the clock jumps to
  the next timer, so `asyncio.sleep(3)` retries cost nothing;
* `subprocess_exec` (every step script, git command, fingerprint script) and
  `run_in_executor` (pack/unpack/up-/download) run the *real* command / function
  synchronously at a PRNG-chosen virtual instant and deliver the completion at
  another; completion order and overlap are thus decided by the seed;
* SIGINT is the captured `cancelJobs` handler fired at a chosen virtual time;
* every persistent-state save, fs mutation of the builder and seam call is a
  numbered **kill point**: `kill_at=k` makes the child `os._exit(137)` there;
* step scripts can be made to fail / die at their k-th command without
  changing their text (BASH_ENV + DEBUG trap).

The event log is appended to a file so that it survives the kill.
"""

import asyncio
import json
import os
import random
import selectors
import signal
import subprocess
import sys
import time as _time

from . import common

INJECT_SH = os.path.join(os.path.dirname(os.path.abspath(__file__)), "inject.sh")

class SimDeadlock(Exception):
    pass

class _SimState:
    def __init__(self, cfg, logpath):
        self.cfg = cfg
        self.rng = random.Random(cfg.get("sched_seed", 0))
        self.logf = open(logpath, "a", buffering=1)
        self.npoint = 0
        self.nsub = 0
        self.nexec = 0
        self.kill_at = cfg.get("kill_at")
        self.running = 0
        self.max_running = 0
        self.sigint_at = cfg.get("sigint_at")
        self.sigint_armed = False
        self.durations = cfg.get("durations", [0, 0.001, 1, 2, 5, 30])
        self.root = os.getcwd()

    def log(self, *ev):
        self.logf.write(json.dumps(ev, default=repr) + "\n")

    def point(self, label):
        """Numbered kill point."""
        self.npoint += 1
        if self.kill_at is not None and self.npoint == self.kill_at:
            self.log("KILL", self.npoint, label)
            self.logf.flush()
            os._exit(137)

SIM = None

_TASK_SEQ = None
def task_seq():
    """Small deterministic number for the current asyncio task (order of first sight)."""
    global _TASK_SEQ
    import weakref
    if _TASK_SEQ is None:
        _TASK_SEQ = (weakref.WeakKeyDictionary(), [0])
    try:
        t = asyncio.current_task()
    except RuntimeError:
        return None
    if t is None:
        return None
    m, c = _TASK_SEQ
    if t not in m:
        c[0] += 1
        m[t] = c[0]
    return m[t]

class SimTransport:
    def __init__(self):
        self.returncode = None
        self.closed = False
    def get_returncode(self):
        return self.returncode
    def get_pid(self):
        return 0
    def close(self):
        self.closed = True
    def is_closing(self):
        return self.closed
    def kill(self): pass
    def terminate(self): pass
    def send_signal(self, sig): pass
    def get_pipe_transport(self, fd):
        return None
    def get_extra_info(self, name, default=None):
        return default

class _JumpSelector:
    """Wraps the real selector: real fds are polled without blocking; if
    nothing is ready the virtual clock jumps to the next timer."""
    def __init__(self, real, loop):
        self._real = real
        self._loop = loop
    def __getattr__(self, k):
        return getattr(self._real, k)
    def select(self, timeout=None):
        ev = self._real.select(0)
        if ev:
            return ev
        if timeout is None:
            if SIM is not None:
                SIM.log("DEADLOCK", self._loop.time())
            raise SimDeadlock("no runnable task, no timer, no fd ready")
        if timeout > 0:
            self._loop._vtime += timeout
        return []

def _rel(p, root):
    p = str(p)
    if p.startswith(root + "/"):
        return p[len(root) + 1:]
    return p

def _classify(args, cwd, root):
    """Short description of a spawned command for the event log."""
    args = [str(a) for a in args]
    base = os.path.basename(args[0])
    if base == "bash":
        script = [a for a in args[1:] if not a.startswith("-")]
        s = _rel(script[0], root) if script else ""
        kind = "script"
        for lab in ("checkout", "build", "package"):
            if s.endswith("/script") and False:
                pass
        return ["bash", s, [_rel(a, root) for a in script[1:]]]
    return [base] + [_rel(a, root) for a in args[1:6]]

class SimLoop(asyncio.SelectorEventLoop):
    def __init__(self):
        super().__init__()
        self._vtime = 1000.0
        self._selector = _JumpSelector(self._selector, self)
        self._sig_handlers = {}

    def time(self):
        return self._vtime

    # -- signals: captured, fired by the simulator
    def add_signal_handler(self, sig, callback, *args):
        self._sig_handlers[sig] = (callback, args)
        if sig == signal.SIGINT and SIM.sigint_at is not None and not SIM.sigint_armed:
            SIM.sigint_armed = True
            def fire():
                h = self._sig_handlers.get(signal.SIGINT)
                SIM.log("SIGINT", self.time(), h is not None)
                if h is not None:
                    h[0](*h[1])
            self.call_later(SIM.sigint_at, fire)

    def remove_signal_handler(self, sig):
        return self._sig_handlers.pop(sig, None) is not None

    # -- executor jobs run inline at a chosen instant
    def run_in_executor(self, executor, func, *args):
        fut = self.create_future()
        SIM.nexec += 1
        n = SIM.nexec
        d = SIM.rng.choice(SIM.durations)
        at_start = SIM.rng.random() < 0.5
        name = getattr(func, "__qualname__", repr(func))
        SIM.log("exec-start", self.time(), n, name)
        SIM.running += 1
        SIM.max_running = max(SIM.max_running, SIM.running)
        box = {}
        def run():
            SIM.point("exec-before:" + name)
            try:
                box["res"] = ("ok", func(*args))
            except BaseException as e:  # noqa
                box["res"] = ("exc", e)
            SIM.point("exec-after:" + name)
        if at_start:
            run()
        def finish():
            if "res" not in box:
                run()
            SIM.running -= 1
            SIM.log("exec-end", self.time(), n, name, box["res"][0])
            if fut.cancelled():
                return
            if box["res"][0] == "ok":
                fut.set_result(box["res"][1])
            else:
                fut.set_exception(box["res"][1])
        self.call_later(d, finish)
        return fut

    # -- subprocesses: the real command, synchronously, at a chosen instant
    async def subprocess_exec(self, protocol_factory, program, *args, stdin=None, stdout=None,
                              stderr=None, env=None, cwd=None, pass_fds=(), **kw):
        argv = [program] + list(args)
        protocol = protocol_factory()
        tr = SimTransport()
        protocol.connection_made(tr)
        SIM.nsub += 1
        n = SIM.nsub
        d = SIM.rng.choice(SIM.durations)
        at_start = SIM.rng.random() < 0.5
        desc = _classify(argv, cwd, SIM.root)
        fault = None
        for f in SIM.cfg.get("script_faults", []):
            if (f.get("nth") is not None and f.get("nth") == n) or (
                    f.get("match") and desc[0] == "bash" and f["match"] in desc[1] and not f.get("used")):
                fault = f
                f["used"] = True
        # durations steered per step (directed timing shapes)
        for pat, dur, st in SIM.cfg.get("duration_by_match", []):
            if desc[0] == "bash" and pat in desc[1]:
                d, at_start = dur, bool(st)
                break
        # duration override for explicit schedules
        dd = SIM.cfg.get("sub_durations")
        if dd is not None and n - 1 < len(dd):
            d, at_start = dd[n - 1][0], bool(dd[n - 1][1])
        SIM.log("sub-start", self.time(), n, desc, _rel(cwd or "", SIM.root), d, at_start, task_seq())
        SIM.running += 1
        SIM.max_running = max(SIM.max_running, SIM.running)
        box = {}
        def run():
            SIM.point("sub-before:%d" % n)
            if desc[0] == "bash":
                # what does the step find in its workspace when it really starts?
                try:
                    SIM.log("ws-state", n, desc[1], sorted(os.listdir(cwd or "."))[:50])
                except OSError:
                    SIM.log("ws-state", n, desc[1], None)
            e = dict(env) if env is not None else dict(os.environ)
            if fault is not None and desc[0] == "bash":
                e["BASH_ENV"] = INJECT_SH
                e["VERIF_FAULT_AT"] = str(fault["at"])
                e["VERIF_FAULT_KIND"] = fault["kind"]
                SIM.log("script-fault", n, fault["kind"], fault["at"])
            try:
                cp = subprocess.run(argv, stdin=subprocess.DEVNULL if stdin in (None, subprocess.DEVNULL) else stdin,
                                    stdout=stdout, stderr=stderr, env=e, cwd=cwd,
                                    pass_fds=tuple(pass_fds))
                box["rc"] = cp.returncode
                box["out"] = cp.stdout
                box["err"] = cp.stderr
            except OSError as ex:
                box["oserror"] = ex
            fired = (fault is not None and "rc" in box and
                     ((fault["kind"] == "exit" and box["rc"] == 7) or (fault["kind"] == "kill" and box["rc"] == -9)))
            if fired:
                SIM.log("script-fault-fired", n, fault["kind"], fault["at"])
            if fired and fault.get("kill_bob"):
                SIM.log("KILL", SIM.npoint, "with-script")
                SIM.logf.flush()
                os._exit(137)
            SIM.point("sub-after:%d" % n)
        if at_start:
            run()
            if "oserror" in box:
                SIM.running -= 1
                raise box["oserror"]
        def finish():
            if not box:
                if tr.closed:
                    # cancelled before it did anything: process killed right after start
                    SIM.running -= 1
                    SIM.log("sub-end", self.time(), n, desc, "cancelled")
                    return
                run()
            SIM.running -= 1
            if "oserror" in box:
                tr.returncode = 127
            else:
                tr.returncode = box["rc"]
                if box.get("out"):
                    protocol.pipe_data_received(1, box["out"])
                if box.get("err"):
                    protocol.pipe_data_received(2, box["err"])
            SIM.log("sub-end", self.time(), n, desc, tr.returncode)
            try:
                protocol.connection_lost(None)
            except asyncio.InvalidStateError:
                pass
        self.call_later(d, finish)
        return tr, protocol

class SimEventLoopWrapper:
    def __init__(self):
        self._loop = SimLoop()
    def __enter__(self):
        asyncio.set_event_loop(self._loop)
        return (self._loop, None)
    def __exit__(self, *a):
        self._loop.close()
        asyncio.set_event_loop(None)

async def sim_run(args, universal_newlines=False, errors=None, check=False, shell=False, retries=0, **kwargs):
    """Replacement for bob.utils.run (asyncio.create_subprocess_*): the real
    command at a virtual instant."""
    import io
    loop = asyncio.get_event_loop()
    stdout = stderr = ""
    while True:
        d = SIM.rng.choice(SIM.durations) if SIM is not None else 0
        SIM.nsub += 1
        n = SIM.nsub
        desc = (["sh", str(args)[:80]] if shell else _classify(list(args), kwargs.get("cwd"), SIM.root))
        SIM.log("run-start", loop.time(), n, desc)
        await asyncio.sleep(d / 2)
        SIM.point("run-before:%d" % n)
        cp = subprocess.run(args, shell=shell, stdin=subprocess.DEVNULL, **kwargs)
        # seam for "the world moves on right after this command" (e.g. upstream
        # gets a new commit between `git ls-remote` and the later fetch)
        for h in SIM.cfg.get("after_run_hooks", []):
            if h["match"] in " ".join(str(a) for a in (args if not shell else [args])) and not h.get("used"):
                h["used"] = True
                import importlib
                mod, _, fn = h["call"].partition(":")
                SIM.log("world-hook", loop.time(), h["call"])
                getattr(importlib.import_module(mod), fn)(h.get("arg"))
        await asyncio.sleep(d / 2)
        SIM.log("run-end", loop.time(), n, desc, cp.returncode)
        stdout, stderr = cp.stdout, cp.stderr
        if cp.returncode == 0 or retries == 0:
            break
        retries -= 1
        await asyncio.sleep(1)
    if universal_newlines and stdout is not None:
        stdout = io.TextIOWrapper(io.BytesIO(stdout), errors=errors).read()
    if universal_newlines and stderr is not None:
        stderr = io.TextIOWrapper(io.BytesIO(stderr), errors=errors).read()
    if check and cp.returncode != 0:
        raise subprocess.CalledProcessError(cp.returncode, args, stdout, stderr)
    return subprocess.CompletedProcess(args, cp.returncode, stdout, stderr)

def _wrap_point(label, fn):
    def w(*a, **kw):
        SIM.point(label)
        return fn(*a, **kw)
    return w

class _PointMod:
    def __init__(self, real, name, points):
        self.__dict__["_r"] = real
        self.__dict__["_n"] = name
        self.__dict__["_p"] = frozenset(points)
    def __getattr__(self, k):
        v = getattr(self.__dict__["_r"], k)
        if k in self.__dict__["_p"]:
            return _wrap_point(self.__dict__["_n"] + "." + k, v)
        return v

_SQL_MUTATING = ("INSERT", "DELETE", "UPDATE", "REPLACE", "END", "COMMIT", "BEGIN", "DROP")

class _SqlCursor:
    """Cursor proxy: every mutating statement is a kill point (before it runs) and, with
    cfg["sql_kill"] = {"file": name, "nth": k, "when": "before"|"after"}, the process dies at the
    k-th mutating statement on that database (a kill inside an open transaction)."""
    def __init__(self, cur, dbname):
        self.__dict__["_c"] = cur
        self.__dict__["_db"] = dbname
    def __getattr__(self, k):
        return getattr(self.__dict__["_c"], k)
    def __iter__(self):
        return iter(self.__dict__["_c"])
    def _stmt(self, sql, run):
        word = sql.lstrip().split(None, 1)[0].upper() if sql.strip() else ""
        if word not in _SQL_MUTATING:
            return run()
        db = self.__dict__["_db"]
        sk = SIM.cfg.get("sql_kill")
        hit = False
        if sk and sk.get("file") == db:
            SIM.nsql = getattr(SIM, "nsql", 0) + 1
            hit = SIM.nsql == sk.get("nth")
        if hit and sk.get("when", "after") == "before":
            SIM.log("KILL", SIM.npoint, "sql-before:%s:%s" % (db, word)); SIM.logf.flush(); os._exit(137)
        if SIM.cfg.get("sql_points"):
            SIM.point("sql:%s:%s" % (db, word))
        r = run()
        if hit:
            SIM.log("KILL", SIM.npoint, "sql-after:%s:%s" % (db, word)); SIM.logf.flush(); os._exit(137)
        return r
    def execute(self, sql, *a):
        c = self.__dict__["_c"]
        return self._stmt(sql, lambda: c.execute(sql, *a))
    def executemany(self, sql, *a):
        c = self.__dict__["_c"]
        return self._stmt(sql, lambda: c.executemany(sql, *a))

class _SqlConn:
    def __init__(self, con, dbname):
        self.__dict__["_c"] = con
        self.__dict__["_db"] = dbname
    def __getattr__(self, k):
        return getattr(self.__dict__["_c"], k)
    def cursor(self, *a, **kw):
        return _SqlCursor(self.__dict__["_c"].cursor(*a, **kw), self.__dict__["_db"])
    def execute(self, sql, *a):
        return self.cursor().execute(sql, *a)

class _SqlMod:
    def __init__(self, real):
        self.__dict__["_r"] = real
    def __getattr__(self, k):
        return getattr(self.__dict__["_r"], k)
    def connect(self, path, *a, **kw):
        return _SqlConn(self.__dict__["_r"].connect(path, *a, **kw), os.path.basename(str(path)))

class _CopyFaultShutil:
    """bob.scm.url.shutil: the k-th copy2() writes only the first part of the data and then
    fails with an errno (disk full, quota, I/O error) -- a short write of the fetch."""
    def __init__(self, real):
        self.__dict__["_r"] = real
    def __getattr__(self, k):
        return getattr(self.__dict__["_r"], k)
    def copy2(self, src, dst, *a, **kw):
        cf = SIM.cfg.get("copy_fault")
        SIM.ncopy = getattr(SIM, "ncopy", 0) + 1
        if cf and SIM.ncopy == cf.get("nth", 1):
            import errno
            with open(src, "rb") as f:
                data = f.read()
            with open(dst, "wb") as f:
                f.write(data[:int(len(data) * cf.get("frac", 0.5))])
            SIM.log("copy-fault-fired", SIM.ncopy, _rel(dst, SIM.root), cf.get("errno", "ENOSPC"))
            if cf.get("errno") == "KILL":
                SIM.log("KILL", SIM.npoint, "inside-url-copy"); SIM.logf.flush(); os._exit(137)
            raise OSError(getattr(errno, cf.get("errno", "ENOSPC")), "injected short write")
        return self.__dict__["_r"].copy2(src, dst, *a, **kw)

def install(cfg, logpath):
    """Rebind the seams (inside the forked child)."""
    global SIM
    import bob.utils, bob.state, bob.builder, bob.scm.git, bob.audit, bob.invoker
    SIM = _SimState(cfg, logpath)
    orig_wrapper = bob.utils.EventLoopWrapper
    for modname in list(sys.modules):
        if modname.startswith("bob"):
            m = sys.modules[modname]
            if m is not None and getattr(m, "EventLoopWrapper", None) is orig_wrapper:
                setattr(m, "EventLoopWrapper", SimEventLoopWrapper)
    bob.utils.run = sim_run
    bob.scm.git.run = sim_run
    # kill points at persistent-state updates and builder fs mutations
    real_open = open
    def st_open(name, mode="r", *a, **kw):
        if "w" in mode:
            SIM.point("state.open:" + str(name))
        return real_open(name, mode, *a, **kw)
    bob.state.open = st_open
    rp = bob.utils.replacePath
    def st_replace(a, b):
        SIM.point("state.replace-before:" + str(b))
        rp(a, b)
        SIM.point("state.replace-after:" + str(b))
    bob.state.replacePath = st_replace
    bob.state.os = _PointMod(os, "state.os", {"unlink", "fsync"})
    bob.builder.os = _PointMod(os, "builder.os", {"makedirs", "rename", "symlink", "unlink", "chmod"})
    bob.builder.removePath = _wrap_point("builder.removePath", bob.utils.removePath)
    bob.builder.emptyDirectory = _wrap_point("builder.emptyDirectory", bob.utils.emptyDirectory)
    bob.builder.hashDirectory = _wrap_point("builder.hashDirectory", bob.utils.hashDirectory)
    bob.invoker.emptyDirectory = _wrap_point("invoker.emptyDirectory", bob.utils.emptyDirectory)
    bob.utils.replacePath = _wrap_point("utils.replacePath", rp)
    if cfg.get("sql_points") or cfg.get("sql_kill"):
        # statements inside sqlite transactions (develop directory map, graph caches)
        import sqlite3, bob.cmds.build.state, bob.input, bob.pathspec
        for m in (bob.cmds.build.state, bob.input, bob.pathspec):
            if getattr(m, "sqlite3", None) is sqlite3:
                m.sqlite3 = _SqlMod(sqlite3)
    if cfg.get("copy_fault"):
        import shutil, bob.scm.url
        if getattr(bob.scm.url, "shutil", None) is shutil:
            bob.scm.url.shutil = _CopyFaultShutil(shutil)
    hook = cfg.get("pre_hook")
    if hook:
        import importlib
        mod, _, fn = hook.partition(":")
        getattr(importlib.import_module(mod), fn)()
    from tempfile import _RandomNameSequence
    import tempfile
    ns = _RandomNameSequence()
    ns._rng = random.Random(cfg.get("sched_seed", 0) ^ 0x5eed)
    ns._rng_pid = os.getpid()
    tempfile._name_sequence = ns

def _child(argv, cwd, cfg, logpath, outpath, env):
    os.chdir(cwd)
    fd = os.open(outpath, os.O_WRONLY | os.O_CREAT | os.O_APPEND, 0o644)
    os.dup2(fd, 1)
    os.dup2(fd, 2)
    os.environ.clear()
    os.environ.update(env)
    install(cfg, logpath)
    import bob.scripts
    sys.argv = ["bob"] + list(argv)
    sys.stdout = os.fdopen(1, "w", buffering=1, closefd=False)
    sys.stderr = os.fdopen(2, "w", buffering=1, closefd=False)
    try:
        rc = bob.scripts.bob(os.path.join(common.REPO, "bob"))
    except SystemExit as e:
        rc = e.code if isinstance(e.code, int) else 1
    sys.stdout.flush()
    SIM.log("EXIT", rc, SIM.npoint, SIM.nsub, SIM.max_running, SIM.loop_time() if hasattr(SIM, "loop_time") else 0)
    SIM.logf.flush()
    os._exit(rc if isinstance(rc, int) and 0 <= rc < 126 else 125)

BASE_ENV = {"PATH": "/usr/local/bin:/usr/bin:/bin", "HOME": "/nonexistent", "LANG": "C.UTF-8",
            "TERM": "dumb", "USER": "verif", "SHELL": "/bin/bash",
            "GIT_CONFIG_NOSYSTEM": "1", "GIT_CONFIG_GLOBAL": "/dev/null",
            "GIT_AUTHOR_NAME": "v", "GIT_AUTHOR_EMAIL": "v@v", "GIT_COMMITTER_NAME": "v",
            "GIT_COMMITTER_EMAIL": "v@v", "GIT_AUTHOR_DATE": "2020-01-01T00:00:00Z",
            "GIT_COMMITTER_DATE": "2020-01-01T00:00:00Z"}

class BobResult:
    def __init__(self, rc, killed, events, output):
        self.rc = rc
        self.killed = killed
        self.events = events
        self.output = output
    def subs(self, kind="sub-start"):
        return [e for e in self.events if e[0] == kind]
    @property
    def npoints(self):
        for e in reversed(self.events):
            if e[0] == "EXIT":
                return e[2]
        return None
    def scripts_run(self):
        """List of (script path relative to project, args) of step scripts that ran."""
        return [e[3][1] for e in self.events if e[0] == "sub-start" and e[3][0] == "bash"]

def run_bob(argv, cwd, cfg=None, env=None, workdir=None, timeout=120.0):
    """Run one Bob invocation under the simulator.  Returns BobResult."""
    cfg = dict(cfg or {})
    workdir = workdir or cwd
    logpath = os.path.join(workdir, ".verif-events.%d.jsonl" % os.getpid())
    outpath = os.path.join(workdir, ".verif-out.%d.txt" % os.getpid())
    for p in (logpath, outpath):
        if os.path.exists(p):
            os.unlink(p)
    e = dict(BASE_ENV)
    e.update(env or {})
    sys.stdout.flush(); sys.stderr.flush()
    pid = os.fork()
    if pid == 0:
        try:
            common.die_with_parent()
            os.setpgid(0, 0)
            _child(argv, cwd, cfg, logpath, outpath, e)
        finally:
            os._exit(124)
    t_end = _time.monotonic() + timeout
    status = None
    while True:
        wpid, st = os.waitpid(pid, os.WNOHANG)
        if wpid == pid:
            status = st
            break
        if _time.monotonic() > t_end:
            for tgt in (-pid, pid):
                try: os.kill(tgt, signal.SIGKILL)
                except OSError: pass
            os.waitpid(pid, 0)
            raise common.HarnessError("bob %s timed out after %.0fs" % (argv, timeout))
        _time.sleep(0.002)
    try:
        os.kill(-pid, signal.SIGKILL)
    except OSError:
        pass
    rc = os.waitstatus_to_exitcode(status)
    events = []
    try:
        with open(logpath) as f:
            for line in f:
                try:
                    events.append(json.loads(line))
                except ValueError:
                    pass
    except FileNotFoundError:
        pass
    try:
        with open(outpath, errors="replace") as f:
            out = f.read()
    except FileNotFoundError:
        out = ""
    for p in (logpath, outpath):
        try: os.unlink(p)
        except OSError: pass
    killed = rc == 137 or any(ev[0] == "KILL" for ev in events)
    return BobResult(rc, killed, events, out)
