#!/bin/bash
# Runs every claimed check's quick command in /verif (writes evidence/*.json).
cd /verif
rc=0
for c in C01 C03 C04 C05 C06 C07 C08 C09 C10 C11 C12 C14 C15 C16 C19; do
    /venv/bin/python -m verifsim.run $c --tier ${1:-quick} 2>&1 | grep -E "VIOLATION|KNOWN-FINDING|SUMMARY|HARNESS" | cut -c1-300
    [ ${PIPESTATUS[0]} -ne 0 ] && rc=1
done
exit $rc
